"""Importable workload targets (instrumented: they are pre-emptible and can receive asynchronous exceptions)."""
import time
from simos.sync import cur_sim


def square(x):
    return x * x


def add(a, b=0):
    return a + b


def sleeper(d=1.0):
    time.sleep(d)
    return 'slept'


def loop_sleep(n=1000, d=0.01):
    i = 0
    while i < n:
        time.sleep(d)
        i += 1
    return i
