"""Importable workload targets and value classes (instrumented: pre-emptible, can receive asynchronous exceptions).

Every target writes to the omniscient ground-truth log (sim.tlog) so that oracles know what really happened
in the child: which input it received, whether the target returned or raised, where a finally block ran.
"""
from simos.sync import cur_sim, get_ident
from simos.shims import TimeFacade, OsFacade

time = TimeFacade()
_os = OsFacade()


FINALLY_MARKS = []


def truth(kind, **f):
    s = cur_sim()
    s.tlog(kind, **f)
    if kind == 'p-leave':
        t = s.me()
        s.ev('p-leave', t.name if t else None, f.get('x'), f.get('how'))    # ordered with the kernel events of the run


# ------------------------------------------------------------------------------------------ values
class Custom:
    def __init__(self, a, b=None):
        self.a = a
        self.b = b

    def __eq__(self, o):
        return type(o) is Custom and (o.a, o.b) == (self.a, self.b)

    def __repr__(self):
        return f'Custom({self.a!r}, {self.b!r})'


class NeedsArgsError(Exception):
    """an exception class whose constructor requires arguments: pickles as (cls, (msg,)) and cannot be rebuilt"""

    def __init__(self, a, b):
        super().__init__(f'{a}-{b}')
        self.a = a
        self.b = b


class MyError(Exception):
    pass


class MyBaseException(BaseException):
    pass


def _rebuild_origin_only(origin_pid, payload):
    if _os.getpid() != origin_pid:
        raise AttributeError("Can't get attribute 'MainScriptClass' on <module '__main__' (built-in)>")
    o = OriginOnly.__new__(OriginOnly)
    o.origin = origin_pid
    o.payload = payload
    return o


class OriginOnly:
    """stand-in for an instance of a class defined in the main script of the process that created it: it can be
    pickled anywhere but rebuilt only in its origin process"""

    def __init__(self, payload=None):
        self.origin = _os.getpid()
        self.payload = payload

    def __reduce__(self):
        return _rebuild_origin_only, (self.origin, self.payload)

    def __eq__(self, o):
        return type(o) is OriginOnly and o.payload == self.payload


class OriginOnlyError(Exception):
    def __init__(self, *a):
        super().__init__(*a)
        self.origin = _os.getpid()

    def __reduce__(self):
        return _rebuild_origin_only_error, (self.origin, self.args)


def _rebuild_origin_only_error(origin_pid, args):
    if _os.getpid() != origin_pid:
        raise AttributeError("Can't get attribute 'MainScriptError' on <module '__main__' (built-in)>")
    return OriginOnlyError(*args)


def make_value(spec):
    """JSON value spec -> python value"""
    if isinstance(spec, dict) and '$' in spec:
        k = spec['$']
        if k == 'bytes':
            n = spec['n']
            return bytes((i * 7 + spec.get('salt', 0)) & 0xFF for i in range(min(n, 256))) * (n // 256) + bytes(n % 256)
        if k == 'custom':
            return Custom(make_value(spec.get('a')), make_value(spec.get('b')))
        if k == 'tuple':
            return tuple(make_value(x) for x in spec['items'])
        if k == 'set':
            return set(make_value(x) for x in spec['items'])
        if k == 'origin-only':
            return OriginOnly(spec.get('payload'))
        if k == 'dict':
            return {make_value(a): make_value(b) for a, b in spec['items']}
        raise ValueError(k)
    if isinstance(spec, list):
        return [make_value(x) for x in spec]
    if isinstance(spec, dict):
        return {k: make_value(v) for k, v in spec.items()}
    return spec


EXC = {'ValueError': ValueError, 'KeyError': KeyError, 'MyError': MyError, 'NeedsArgsError': NeedsArgsError,
       'OriginOnlyError': OriginOnlyError, 'KeyboardInterrupt': KeyboardInterrupt, 'SystemExit': SystemExit,
       'MyBaseException': MyBaseException, 'ZeroDivisionError': ZeroDivisionError, 'RuntimeError': RuntimeError}


def make_exc(name, args):
    cls = EXC[name]
    return cls(*[make_value(a) for a in args])


# ------------------------------------------------------------------------------------------ one-shot targets
def t_return(v=None):
    truth('target-enter', fn='t_return')
    val = make_value(v)
    truth('target-leave', how='return')
    return val


def t_raise(name='ValueError', args=()):
    truth('target-enter', fn='t_raise')
    e = make_exc(name, args)
    truth('target-leave', how='raise', exc=name)
    raise e


def t_loop(n=200, d=0.01, v='loop-done'):
    truth('target-enter', fn='t_loop')
    i = 0
    while i < n:
        time.sleep(d)
        i += 1
    truth('target-leave', how='return')
    return v


def t_loop_finally(marker='M', n=200, d=0.01, v='loop-done'):
    truth('target-enter', fn='t_loop_finally')
    try:
        truth('try-entered')
        i = 0
        while i < n:
            time.sleep(d)
            i += 1
        x = i * 2
        truth('target-leave', how='return')
        return v
    finally:
        FINALLY_MARKS.append(marker)     # a C call: cannot be pre-empted by the asynchronous exception before it ran
        truth('finally', marker=marker, ident=get_ident())


def t_swallow(d=0.01):
    truth('target-enter', fn='t_swallow')
    while True:
        try:
            while True:
                time.sleep(d)
        except Exception:
            truth('swallowed')


def t_sleep(d=1000.0, v='slept'):
    truth('target-enter', fn='t_sleep')
    time.sleep(d)
    truth('target-leave', how='return')
    return v


def t_linger(d=1000.0, v='returned-but-lingering'):
    """returns at once but leaves a non-daemon thread behind: the result is delivered while the child process lives on"""
    from simos.sync import Thread
    truth('target-enter', fn='t_linger')
    Thread(target=time.sleep, args=(d,), name='lingering').start()
    truth('target-leave', how='return')
    return v


def t_pyloop(n=60, v='pyloop-done'):
    """pure python computation (no system call) so that the asynchronous exception lands inside the target"""
    truth('target-enter', fn='t_pyloop')
    try:
        truth('try-entered')
        acc = 0
        for i in range(n):
            acc += i
            acc ^= 3
        truth('target-leave', how='return')
        return v
    finally:
        FINALLY_MARKS.append('pyloop')
        truth('finally', marker='pyloop', ident=get_ident())


# ------------------------------------------------------------------------------------------ persistent targets
def p_square(x, *rest, **kw):
    truth('p-enter', x=x)
    r = x * x
    truth('p-leave', x=x)
    return r


def p_echo(*args, **kwargs):
    if kwargs.get('die') == '$die':
        truth('p-enter', x='$die')
        truth('p-leave', x='$die', how='raise')
        raise MyError('asked to die')
    truth('p-enter', x=args[0] if args else None)
    r = [list(args), dict(kwargs)]
    truth('p-leave', x=args[0] if args else None)
    return r


def p_mutating(lst, d=None, tag=None):
    """mutates its arguments: later calls must still see pristine defaults"""
    truth('p-enter', x=tag)
    seen = [list(lst), dict(d or {}), tag]
    lst.append('dirty')
    if d is not None:
        d['dirty'] = True
    truth('p-leave', x=tag)
    return seen


def p_poison(x, poison=(), big=0, origin_only=()):
    truth('p-enter', x=x)
    if x in origin_only:
        # a result the parent cannot rebuild (class of the child's main script, failing __setstate__, ...)
        truth('p-leave', x=x)
        return OriginOnly(x)
    if isinstance(x, dict) and x.get('$swallow'):
        # uncooperative item: swallows every Exception forever
        while True:
            try:
                while True:
                    time.sleep(0.01)
            except Exception:
                truth('swallowed')
    if isinstance(x, dict) and x.get('$busy'):
        # a long, cooperative call: many short sleeps, any exception ends it
        for _ in range(int(x['$busy'] / 0.02)):
            time.sleep(0.02)
        truth('p-leave', x='busy')
        return ['r', 'busy']
    if x in poison or (isinstance(x, list) and x and x[0] in poison):
        truth('p-leave', x=x, how='raise')
        raise MyError(f'poison {x}')
    truth('p-leave', x=x)
    if big:
        return [x, 'r' * big]
    return ['r', x]


def p_slow(x, d=0.05):
    truth('p-enter', x=x)
    time.sleep(d)
    truth('p-leave', x=x)
    return ['r', x]


def p_falsy(x):
    truth('p-enter', x=x)
    truth('p-leave', x=x)
    return [None, 0, '', [], False][x % 5]


def p_swallow(x, d=0.01):
    truth('p-enter', x=x)
    while True:
        try:
            while True:
                time.sleep(d)
        except Exception:
            truth('swallowed')


TARGETS = {f.__name__: f for f in (t_return, t_raise, t_loop, t_loop_finally, t_swallow, t_sleep, t_pyloop, p_square,
                                   p_echo, p_mutating, p_poison, p_slow, p_falsy, p_swallow)}


def t_echo(*args, **kwargs):
    truth('target-enter', fn='t_echo')
    r = [[make_value(a) for a in args], {k: make_value(v) for k, v in kwargs.items()}]
    truth('target-leave', how='return')
    return r


TARGETS['t_echo'] = t_echo


def t_gilhold():
    """models a C extension call that never releases the interpreter lock: no thread of this process runs any more
    (python-level signal handlers cannot run), default-disposition signals still kill"""
    truth('target-enter', fn='t_gilhold')
    s = cur_sim()
    me = s.me()
    s.fault('gil-hold')
    s.ev('gil-hold', me.proc.name)
    me.proc.state = 'gilheld'      # from the next scheduling point on no thread of this process runs any more
    s.yield_('gil-hold', deliver=False)
    return 'unreachable'


def t_sigstop():
    """the process gets SIGSTOPped (by somebody else) while running the target"""
    truth('target-enter', fn='t_sigstop')
    s = cur_sim()
    me = s.me()
    s.fault('sigstop')
    s.stop_proc(me.proc)
    s.yield_('stopped', deliver=False)
    time.sleep(1000.0)
    return 'continued'


TARGETS['t_gilhold'] = t_gilhold
TARGETS['t_sigstop'] = t_sigstop
TARGETS['t_linger'] = t_linger


def p_mut_echo(*args, **kwargs):
    """returns a snapshot of what it received, then mutates every mutable argument"""
    import copy as _copy
    if kwargs.get('die') == '$die':
        truth('p-enter', x='$die')
        truth('p-leave', x='$die', how='raise')
        raise MyError('asked to die')
    truth('p-enter', x=None)
    snap = [_copy.deepcopy(list(args)), _copy.deepcopy(dict(kwargs))]
    for a in list(args) + list(kwargs.values()):
        if isinstance(a, list):
            a.append('dirty')
        elif isinstance(a, dict):
            a['dirty'] = True
    truth('p-leave', x=None)
    return snap


def p_none(*args, **kwargs):
    if kwargs.get('die') == '$die':
        truth('p-enter', x='$die')
        truth('p-leave', x='$die', how='raise')
        raise MyError('asked to die')
    truth('p-enter', x=None)
    truth('p-leave', x=None)
    return None


TARGETS['p_mut_echo'] = p_mut_echo
TARGETS['p_none'] = p_none


_CALLS = {}


def _linger(d):
    """keeps the (child) process alive for d seconds after the worker's run loop has ended (non-daemon thread)"""
    if d:
        from simos.sync import Thread
        Thread(target=time.sleep, args=(d,), name='lingering').start()


def p_pool(x, poison=(), fail_after=None, d=0.0, linger=0.0, origin_only=(), tagk=None):
    """pool target: x is a unique input id; raises on poison inputs; dies after `fail_after` calls (per worker); with `linger`
    the dying worker's process stays around for a while after its pipes are closed"""
    truth('p-enter', x=x)
    if isinstance(x, dict) and x.get('$swallow'):
        while True:
            try:
                while True:
                    time.sleep(0.01)
            except Exception:
                truth('swallowed')
    if x in origin_only:
        # a result the parent cannot rebuild (class of the child's main script, failing __setstate__, ...)
        truth('p-leave', x=x)
        return OriginOnly(x)
    key = (_os.getpid(), get_ident())
    n = _CALLS.get(key, 0) + 1
    _CALLS[key] = n
    if d:
        time.sleep(d)
    if x in poison:
        truth('p-leave', x=x, how='raise')
        _linger(linger)
        raise MyError(f'poison {x}')
    if fail_after is not None and n > fail_after:
        truth('p-leave', x=x, how='raise')
        _linger(linger)
        raise MyError(f'worker gives up after {fail_after} calls')
    truth('p-leave', x=x)
    return ['r', x] if tagk is None else ['r', x, tagk]


TARGETS['p_pool'] = p_pool
