"""Object graphs with remote-aware (opt-in) classes for C15, a canonical description of a graph, and the
15-line reference model of the patch rule."""
import copy


class Opt:
    """opt-in class: dict state, no __setstate__"""

    def __init__(self, **kw):
        self.__dict__.update(kw)

    def __getstate__(self, remote=False):
        st = dict(self.__dict__)
        st['_was_remote'] = bool(remote)
        return st


class OptSS(Opt):
    """opt-in class with its own __setstate__"""
    fail_on = None      # tag of the instance whose __setstate__ raises (fault injection)

    def __setstate__(self, state):
        if OptSS.fail_on is not None and state.get('tag') == OptSS.fail_on:
            raise RuntimeError('setstate refused')
        self.__dict__.update(state)
        self.__dict__['_via_setstate'] = True


class Plain:
    def __init__(self, **kw):
        self.__dict__.update(kw)


def build(spec):
    """spec: {'cls': 'Opt'|'OptSS'|'Plain', 'tag': str, 'attrs': {name: spec | value | {'$list': [...]} | {'$same': tag} | {'$top': 1}}}"""
    made = {}
    top = []

    def mk(sp):
        if isinstance(sp, dict) and 'cls' in sp:
            cls = {'Opt': Opt, 'OptSS': OptSS, 'Plain': Plain, 'OptTuple': OptTuple}[sp['cls']]
            o = cls(tag=sp['tag'])
            made[sp['tag']] = o
            if not top:
                top.append(o)
            for k, v in sp.get('attrs', {}).items():
                setattr(o, k, mk(v))
            return o
        if isinstance(sp, dict) and '$list' in sp:
            return [mk(x) for x in sp['$list']]
        if isinstance(sp, dict) and '$dict' in sp:
            return {k: mk(v) for k, v in sp['$dict'].items()}
        if isinstance(sp, dict) and '$same' in sp:
            return made[sp['$same']]
        if isinstance(sp, dict) and '$top' in sp:
            return top[0]
        return copy.deepcopy(sp)
    return mk(spec)


def describe(obj):
    """canonical, comparable description of a loaded graph (shared references and cycles become $ref)"""
    memo = {}
    nodes = []

    def d(o):
        if type(o).__name__ == 'OptTuple':
            return {'$opttuple': [o.tag, o.x]}
        if isinstance(o, (Opt, Plain)):
            if id(o) in memo:
                return {'$ref': memo[id(o)]}
            idx = len(nodes)
            memo[id(o)] = idx
            node = {'$obj': idx, 'cls': type(o).__name__, 'state': {}}
            nodes.append(node)
            for k in sorted(o.__dict__):
                if k in ('_was_remote',):
                    continue
                node['state'][k] = d(o.__dict__[k])
            return node
        if isinstance(o, list):
            return [d(x) for x in o]
        if isinstance(o, tuple):
            return {'$tuple': [d(x) for x in o]}
        if isinstance(o, dict):
            return {'$d': {str(k): d(v) for k, v in sorted(o.items(), key=lambda kv: str(kv[0]))}}
        return o
    top = d(obj)
    return top, nodes


def model_apply(top, nodes, patches):
    """reference model of the rule: patches override entries of the top-level state; a dict patch under the name of a
    direct opt-in child overrides entries of that child's state (recursively); any other value replaces the entry."""
    def resolve(n):
        return nodes[n['$ref']] if isinstance(n, dict) and '$ref' in n else n

    def is_opt(n):
        n = resolve(n)
        return isinstance(n, dict) and '$obj' in n and n['cls'] in ('Opt', 'OptSS')

    def app(node, p):
        node = resolve(node)
        for k, v in p.items():
            cur = node['state'].get(k)
            if isinstance(v, dict) and cur is not None and is_opt(cur):
                app(cur, v)
            else:
                node['state'][k] = describe(v)[0] if not isinstance(v, (int, str, type(None), float)) else v
    if isinstance(top, dict) and '$obj' in top:
        app(top, patches)
    return top


class OptTuple:
    """opt-in class with a non-dict state"""

    def __init__(self, tag=None, x=0):
        self.tag = tag
        self.x = x

    def __getstate__(self, remote=False):
        return (self.tag, self.x, bool(remote))

    def __setstate__(self, st):
        self.tag, self.x = st[0], st[1]


def model_apply_obj(obj, patches):
    """the reference model on real objects (obj = result of the un-patched load)"""
    for k, v in patches.items():
        cur = obj.__dict__.get(k)
        if isinstance(v, dict) and isinstance(cur, Opt):
            model_apply_obj(cur, v)
        else:
            obj.__dict__[k] = copy.deepcopy(v)
    return obj
