"""Thin probe subclasses (NOT instrumented: no pre-emption and no asynchronous exception can land inside them).
They override only documented extension points (`run`) and record ground truth."""
from simos.sync import cur_sim, get_ident
from pyworkers.thread import ThreadWorker
from pyworkers.process import ProcessWorker
from pyworkers.remote import RemoteWorker
from pyworkers.persistent_thread import PersistentThreadWorker
from pyworkers.persistent_process import PersistentProcessWorker
from pyworkers.persistent_remote import PersistentRemoteWorker


def truth(kind, **f):
    cur_sim().tlog(kind, **f)


class _Probe:
    def run(self, *args, **kwargs):
        us = kwargs.pop('_user_states', None)
        truth('run-enter', ident=get_ident(), state=getattr(self, '_user_state', None))
        try:
            if us:
                # assign user_state before / after the target as scripted
                for v in us.get('before', ()):
                    self.user_state = v
                    truth('user-state-set', value=v)
            r = super().run(*args, **kwargs)
            if us:
                for v in us.get('after', ()):
                    self.user_state = v
                    truth('user-state-set', value=v)
        except BaseException as e:
            truth('run-left', how='raise', exc=type(e).__name__)
            raise
        truth('run-left', how='return')
        return r


class _PProbe(_Probe):
    """persistent probes additionally record which input was handed to which worker"""

    def enqueue(self, *args, **kwargs):
        truth('enqueue-attempt', wid=list(self.id), userid=self.userid, x=args[0] if args else None)
        try:
            r = super().enqueue(*args, **kwargs)
        except BaseException as e:
            truth('enqueue-failed', wid=list(self.id), userid=self.userid, x=args[0] if args else None, exc=type(e).__name__)
            raise
        truth('enqueued', wid=list(self.id), userid=self.userid, x=args[0] if args else None)
        return r


class PThreadWorker(_Probe, ThreadWorker):
    pass


class PProcessWorker(_Probe, ProcessWorker):
    pass


class PRemoteWorker(_Probe, RemoteWorker):
    pass


class PPersistentThreadWorker(_PProbe, PersistentThreadWorker):
    pass


class PPersistentProcessWorker(_PProbe, PersistentProcessWorker):
    pass


class PPersistentRemoteWorker(_PProbe, PersistentRemoteWorker):
    pass


PROBES = {'thread': PThreadWorker, 'process': PProcessWorker, 'remote': PRemoteWorker,
          'pthread': PPersistentThreadWorker, 'pprocess': PPersistentProcessWorker, 'premote': PPersistentRemoteWorker}
PLAIN = {'thread': ThreadWorker, 'process': ProcessWorker, 'remote': RemoteWorker,
         'pthread': PersistentThreadWorker, 'pprocess': PersistentProcessWorker, 'premote': PersistentRemoteWorker}
KINDS = ['thread', 'process', 'remote', 'pthread', 'pprocess', 'premote']
