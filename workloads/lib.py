"""Workload helpers shared by the property modules (not instrumented)."""
import queue
from simos.sync import cur_sim, Thread as SimThread, Event as SimEvent
from . import targets as T
from . import probes as P

HUNG = '<<HUNG>>'


def sim():
    return cur_sim()


def start_server(close_on_none=False):
    from pyworkers.remote_server import spawn_server
    s = cur_sim()
    s.proc_tag = 'server'
    try:
        srv = spawn_server(('127.0.0.1', 0), close_on_none=True) if close_on_none else spawn_server(('127.0.0.1', 0))
    finally:
        s.proc_tag = None
    s.server_pids = tuple(getattr(s, 'server_pids', ())) + (srv.pid,)
    return srv


def is_remote(kind):
    return kind.endswith('remote')


def is_persistent(kind):
    return kind.startswith('p') and kind != 'process'


def base_kind(kind):
    return kind[1:] if is_persistent(kind) else kind


def make_worker(kind, target, args=None, kwargs=None, host=None, probe=True, **kw):
    cls = (P.PROBES if probe else P.PLAIN)[kind]
    if isinstance(target, str):
        target = T.TARGETS[target]
    if is_remote(kind):
        kw['host'] = host
    return cls(target, args=args, kwargs=kwargs, **kw)


class Box:
    pass


def call_with_deadline(fn, seconds, *a, **k):
    """run fn in a helper simulated thread; give up after `seconds` of simulated time.
    Returns ('ok', value) | ('exc', exception) | ('hung', None)."""
    s = cur_sim()
    box = Box()
    box.res = None
    ev = SimEvent()

    def body():
        try:
            box.res = ('ok', fn(*a, **k))
        except BaseException as e:   # noqa
            box.res = ('exc', e)
        ev.set()
    t0 = s.now
    th = SimThread(target=body, name='deadline-helper')
    th.start()
    ev.wait(seconds)
    if box.res is None:
        s.tlog('call-hung', fn=getattr(fn, '__qualname__', str(fn)), after=seconds, blocked=s.blocked_report())
        return ('hung', None)
    return box.res


def timed(fn, *a, **k):
    """-> (status, value, elapsed simulated seconds)"""
    s = cur_sim()
    t0 = s.now
    try:
        v = fn(*a, **k)
        return 'ok', v, s.now - t0
    except BaseException as e:   # noqa
        return 'exc', e, s.now - t0


def safe_repr(v, limit=200):
    try:
        r = repr(v)
    except Exception as e:   # noqa
        r = f'<repr failed {type(e).__name__}>'
    if len(r) > limit:
        r = r[:limit] + f'...({len(r)})'
    return r


def read4(w):
    """read the four public accessors; never raises. Returns a JSON-able record."""
    rec = {}
    for name in ('is_alive', 'has_error', 'result', 'error'):
        try:
            v = getattr(w, name)
            if name == 'is_alive':
                v = v()
            if name == 'error':
                rec[name] = {'type': type(v).__name__, 'args': safe_repr(getattr(v, 'args', None))} if v is not None else None
            elif name == 'result':
                rec[name] = {'repr': safe_repr(v), 'none': v is None}
                rec['_result_obj'] = v
            else:
                rec[name] = v
        except BaseException as e:   # noqa
            rec[name] = {'RAISED': type(e).__name__, 'msg': safe_repr(str(e), 120)}
    return rec


def child_proc_of(w):
    """simulated process that runs the work of worker w (None for thread kinds)"""
    s = cur_sim()
    try:
        pid = w.pid
    except Exception:
        return None
    return s.procs.get(pid)


def proc_gone(p):
    return p is None or not p.alive


def procs_alive_except(s, keep):
    return [p for p in s.procs.values() if p.alive and p not in keep]


def descendants(s, root_proc):
    out = []
    for p in s.procs.values():
        q = p.parent
        while q is not None:
            if q is root_proc:
                out.append(p)
                break
            q = q.parent
    return out


def break_connections(w, e=None, which=('_socket', '_ctrl_sock')):
    """network fault on the parent side of a remote worker: its TCP connections time out (ETIMEDOUT) as after a silent
    loss of the peer host"""
    import errno
    from simos import kernel
    s = cur_sim()
    n = 0
    for name in which:
        sk = getattr(w, name, None)
        if sk is None or getattr(sk, '_closed', True):
            continue
        try:
            ofd = kernel.lookup(sk._owner, sk._fd)
        except OSError:
            continue
        if kernel.inject_conn_error(s, ofd, e or errno.ETIMEDOUT):
            n += 1
    return n
