"""C07 - Pool.run raises IndexError('pop from empty list') on a late result - deterministic variant.

Companion of fixed_c07_pool_late_result.py (which uses the exact test_retries_x2 scenario and depends on
timing).  Here the input source is simply slow (a generator that needs 0.4 s per item), so that a worker has
time to die between two rounds of the initial enqueueing; nothing inside pyworkers is patched.

Two persistent PROCESS workers W (userid 0) and V (userid 1), worker_extra_pending_inputs=2, inputs in the
order they are handed out: W<-1, V<-100, W<-0, V<-101, W<-2, ...  (x >= 100 just takes 1 s, 0 raises).
W answers input 1 (result stays unread in its pipe), dies on input 0, and the third round finds it dead:
handle_death(W, 'while enqueueing') clears W's pending list.  V is still busy, so the main loop runs and reads
W's unread result -> original: `self._pending_per_worker[wid].pop(0)` -> IndexError: pop from empty list.
Repaired: the late result is matched with its orphaned input; the run ends with a result list or a PoolError.
"""
import os
import signal
import sys
import threading
import time

from pyworkers.pool import Pool, PoolError
from pyworkers.worker import WorkerType


def target(x):
    if x >= 100:
        time.sleep(1.0)
        return x
    return 1 / x


def slow_inputs():
    for x in [1, 100, 0, 101, 2, 102]:
        time.sleep(0.4)
        yield x


def scenario(out):
    p = Pool(target, name='Test Pool', close_timeout=2)
    pids = []
    out['pids'] = pids
    try:
        with p:
            for i in range(2):
                w = p.add_worker(WorkerType.PROCESS, name=f'Worker_{i}', userid=i)
                pids.append(w.pid)
            try:
                out['results'] = p.run(slow_inputs(), worker_extra_pending_inputs=2)
                out['outcome'] = 'returned'
            except PoolError as e:
                out['outcome'] = 'PoolError'
                out['results'] = e.partial_results
    except IndexError as e:
        out['outcome'] = f'IndexError: {e}'
    except BaseException as e: # noqa
        out['outcome'] = f'{type(e).__name__}: {e}'


def main():
    out = {}
    t = threading.Thread(target=scenario, args=(out,), daemon=True)
    t.start()
    t.join(30)
    if t.is_alive():
        out['outcome'] = 'hung'
    for pid in out.get('pids', []):
        try:
            os.kill(pid, signal.SIGKILL)
        except OSError:
            pass
    print(f'outcome: {out.get("outcome")} results: {out.get("results")}', file=sys.stderr)
    outcome = str(out.get('outcome'))
    if outcome.startswith('IndexError'):
        print(f'REPRODUCED: Pool.run raised {outcome!r} when it read the unread result of a worker whose death it had handled while enqueueing')
        sys.stdout.flush()
        os._exit(1)
    results = out.get('results') or []
    if outcome == 'hung' or results.count(1.0) != 1:
        print(f'REPRODUCED: unexpected outcome {outcome}, results {results} (result of input 1 must appear exactly once)')
        sys.stdout.flush()
        os._exit(1)
    print(f'NOT REPRODUCED (outcome: {outcome}, results: {results})')
    sys.stdout.flush()
    os._exit(0)


if __name__ == '__main__':
    main()
