"""C19 (fixed) - Worker.active_children() raises AttributeError while another thread restarts a registered persistent worker.

Real threads, no monkeypatching.  restart() empties the worker's __dict__ and re-runs __init__; the pruning pass of
active_children() calls is_alive() on every registered worker, so a pass that meets the worker in its attribute-less moment
fails (AttributeError: ... has no attribute '_started' / '_child' / ...).  Plain stress: one thread restarts a
PersistentThreadWorker in a loop, another one lists active_children(); a small switch interval makes the window easy to hit.

Exit 1 + 'REPRODUCED' on the first exception out of active_children() within 20 s, else 0.
"""
import os
import sys
import threading
import time

from pyworkers.worker import Worker
from pyworkers.persistent_thread import PersistentThreadWorker


def square(x):
    return x * x


def main():
    sys.setswitchinterval(1e-6)
    w = PersistentThreadWorker(square)
    stop = threading.Event()
    out = {}

    def restarter():
        n = 0
        while not stop.is_set():
            try:
                w.restart(timeout=2)
                n += 1
            except Exception as e:   # noqa
                out.setdefault('restart-exc', repr(e))
                break
        out['restarts'] = n

    def lister():
        n = 0
        while not stop.is_set():
            try:
                list(Worker.active_children())
                n += 1
            except Exception as e:   # noqa
                out['exc'] = repr(e)
                stop.set()
        out['listings'] = n

    ts = [threading.Thread(target=restarter, daemon=True), threading.Thread(target=lister, daemon=True)]
    for t in ts:
        t.start()
    t0 = time.time()
    while time.time() - t0 < 20 and not stop.is_set():
        time.sleep(0.1)
    stop.set()
    for t in ts:
        t.join(5)
    print(out, file=sys.stderr)
    if 'exc' in out:
        print(f'REPRODUCED: active_children() raised {out["exc"]} after {out.get("listings")} listings / {out.get("restarts")} restarts')
        sys.stdout.flush()
        os._exit(1)
    print(f'NOT REPRODUCED ({out.get("listings")} listings, {out.get("restarts")} restarts)')
    sys.stdout.flush()
    os._exit(0)


if __name__ == '__main__':
    main()
