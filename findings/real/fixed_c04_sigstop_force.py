"""C04 (known finding) - terminate(force=True) does not kill a stopped (SIGSTOP) ProcessWorker child.

The forced kill is multiprocessing.Process.terminate() == SIGTERM, which a stopped process only acts on when
it is continued.  On the repaired tree terminate(timeout=0.5, force=True) returns False and the child pid
still exists.  (On the original tree terminate() does not even return - see
fixed_c04_terminate_stopped_child.py; this script reports that as reproduced, too.)
"""
import os
import signal
import sys
import threading
import time

from pyworkers.process import ProcessWorker


def sleeping_loop():
    while True:
        time.sleep(0.05)


def call_terminate(w, out):
    try:
        out['value'] = w.terminate(timeout=0.5, force=True)
    except BaseException as e: # noqa
        out['exc'] = e


def pid_state(pid):
    try:
        with open(f'/proc/{pid}/stat') as f:
            return f.read().rsplit(')', 1)[1].split()[0]
    except OSError:
        return None


def main():
    w = ProcessWorker(sleeping_loop)
    pid = w.pid
    problem = None
    try:
        time.sleep(0.5)
        os.kill(pid, signal.SIGSTOP)
        time.sleep(0.2)
        out = {}
        t = threading.Thread(target=call_terminate, args=(w, out), daemon=True)
        t.start()
        t.join(5)
        try:
            os.kill(pid, 0)
            exists = True
        except OSError:
            exists = False
        state = pid_state(pid)
        print(f'terminate -> {out!r}, hung={t.is_alive()}, pid exists={exists}, state={state}', file=sys.stderr)
        if t.is_alive():
            problem = f'terminate(timeout=0.5, force=True) did not return within 5 s; child pid {pid} still exists (state {state})'
        elif exists and state != 'Z':
            problem = f'terminate(timeout=0.5, force=True) returned {out.get("value", out.get("exc"))!r} and the stopped child still exists (state {state}): forced kill is SIGTERM'
    finally:
        for sig in (signal.SIGCONT, signal.SIGKILL):
            try:
                os.kill(pid, sig)
            except OSError:
                pass

    if problem:
        print('REPRODUCED: ' + problem)
        sys.stdout.flush()
        os._exit(1)
    print('NOT REPRODUCED')
    sys.stdout.flush()
    os._exit(0)


if __name__ == '__main__':
    main()
