#!/bin/sh
# Run every repro script (or the ones given as arguments) on both trees and print one line per run.
cd "$(dirname "$0")"
scripts="$@"
[ -z "$scripts" ] && scripts=$(ls fixed_*.py known_*.py)
for s in $scripts; do
  for t in /tmp/orig /repo; do
    start=$(date +%s)
    out=$(PYTHONPATH=$t timeout 120 /venv/bin/python "$s" 2>/dev/null)
    rc=$?
    end=$(date +%s)
    line=$(printf '%s\n' "$out" | grep -E '^(REPRODUCED|NOT REPRODUCED)' | head -1)
    echo "$s | $t | rc=$rc | $((end-start))s | $line"
  done
done
