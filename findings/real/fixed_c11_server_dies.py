"""C11 - a client that connects to the remote server and closes at once kills the server process.

Real server process (spawn_server), real TCP.  A raw socket connects to the server address and is closed
without sending anything.  In the original code the header recv_msg() in RemoteServer.run is outside any
try block: the ConnectionClosedError ends the accept loop and the whole server process dies.  The repaired
server logs the disconnect and keeps serving: a RemoteWorker created afterwards gets its result.
"""
import os
import signal
import socket
import sys
import threading
import time

from pyworkers.remote import RemoteWorker
from pyworkers.remote_server import spawn_server


def square(x):
    return x * x


def try_worker(addr, out):
    try:
        w = RemoteWorker(square, args=[3], host=addr)
        out['waited'] = w.wait(10)
        out['result'] = w.result
    except BaseException as e: # noqa
        out['exc'] = e


def main():
    srv = spawn_server(('127.0.0.1', 0))
    problem = None
    try:
        assert srv.is_alive(), srv.error
        addr = srv.addr
        s = socket.socket(socket.AF_INET, socket.SOCK_STREAM)
        s.connect(addr)
        s.close()
        time.sleep(1)
        if not srv.is_alive():
            problem = f'server process is dead 1 s after a bare connect+close (error: {srv.error!r})'
        else:
            out = {}
            t = threading.Thread(target=try_worker, args=(addr, out), daemon=True)
            t.start()
            t.join(15)
            if t.is_alive():
                problem = 'server alive but a RemoteWorker created afterwards hangs'
            elif out.get('result') != 9:
                problem = f'server alive but RemoteWorker(square, 3) gave {out!r}'
    finally:
        pid = srv.pid
        try:
            srv.terminate(timeout=2, force=True)
        except Exception:
            pass
        try:
            if srv.is_alive():
                os.kill(pid, signal.SIGKILL)
        except Exception:
            pass

    if problem:
        print('REPRODUCED: ' + problem)
        sys.stdout.flush()
        os._exit(1)
    print('NOT REPRODUCED')
    sys.stdout.flush()
    os._exit(0)


if __name__ == '__main__':
    main()
