"""C04 (known finding) - RemoteWorker.terminate(timeout=0, force=True) kills the CALLING process.

Real server process, real TCP.  The worker's target swallows every Exception in a loop, so the graceful
WorkerTerminatedError has no effect and the server has to kill the backend.  On the parent side terminate()
then joins the local frontend thread for `timeout` (= 0) seconds and, if that thread has not finished yet,
"forces" by os.kill(os.getpid(), SIGTERM) - i.e. it sends SIGTERM to the user's own process.

The scenario runs in a subprocess (this script with the arguments 'child <ip> <port>'); the server is owned
by the outer process so that nothing is left behind.  The outer process looks at the return code of the
subprocess: -15 (killed by SIGTERM) instead of a normal exit means the defect showed.

With timeout=0 the first call usually reports False (the backend has been signalled but is not dead yet),
so - as a caller who wants the worker gone would - terminate(timeout=0, force=True) is simply called again
until it reports True (at most 200 calls, no pause).  The call that finds the backend dead races with the
local frontend thread which is just noticing the closed connection; if that thread is still alive the caller
is killed.  The race is won/lost about every second time on this machine, so up to 4 fresh subprocesses are
tried.
"""
import os
import signal
import subprocess
import sys
import time

ATTEMPTS = 4


def stubborn_loop():
    while True:
        try:
            time.sleep(0.01)
        except Exception:
            pass


def child_main(addr):
    from pyworkers.remote import RemoteWorker
    w = RemoteWorker(stubborn_loop, host=addr)
    print(f'WORKER_PID {w.pid}', flush=True)
    time.sleep(0.5)
    results = []
    for _ in range(200):
        r = w.terminate(timeout=0, force=True)
        results.append(r)
        if r:
            break
    print(f'TERMINATE_RETURNED {results}', flush=True)
    print('CHILD_DONE', flush=True)
    os._exit(0)


def run_child(addr):
    p = subprocess.Popen([sys.executable, os.path.abspath(__file__), 'child', addr[0], str(addr[1])],
                         stdout=subprocess.PIPE, stderr=subprocess.DEVNULL)
    try:
        rc = p.wait(timeout=8)
    except subprocess.TimeoutExpired:
        p.kill()
        p.wait()
        rc = 'timeout'
    # read what is there without waiting for EOF (a grandchild could hold the pipe open)
    os.set_blocking(p.stdout.fileno(), False)
    try:
        out = (p.stdout.read() or b'').decode(errors='replace')
    except OSError:
        out = ''
    p.stdout.close()
    for line in out.splitlines():
        if line.startswith('WORKER_PID'):
            try:
                os.kill(int(line.split()[1]), signal.SIGKILL)
            except (OSError, ValueError):
                pass
    return rc, out


def main():
    from pyworkers.remote_server import spawn_server
    srv = spawn_server(('127.0.0.1', 0))
    hit = None
    log = []
    try:
        assert srv.is_alive(), srv.error
        for attempt in range(ATTEMPTS):
            rc, out = run_child(srv.addr)
            returned = [l for l in out.splitlines() if l.startswith('TERMINATE_RETURNED')]
            log.append((rc, returned))
            print(f'attempt {attempt}: returncode {rc}, output {out.split()}', file=sys.stderr)
            if rc == -signal.SIGTERM and 'CHILD_DONE' not in out:
                hit = attempt
                break
    finally:
        pid = srv.pid
        try:
            srv.terminate(timeout=2, force=True)
        except Exception:
            pass
        try:
            if srv.is_alive():
                os.kill(pid, signal.SIGKILL)
        except Exception:
            pass

    if hit is not None:
        print(f'REPRODUCED: the process calling RemoteWorker.terminate(timeout=0, force=True) was killed by SIGTERM (returncode -15) inside terminate() (attempt {hit + 1} of {ATTEMPTS})')
        sys.stdout.flush()
        os._exit(1)
    print(f'NOT REPRODUCED ({log})')
    sys.stdout.flush()
    os._exit(0)


if __name__ == '__main__':
    if len(sys.argv) > 1 and sys.argv[1] == 'child':
        child_main((sys.argv[2], int(sys.argv[3])))
    else:
        main()
