"""C04 (known finding) - RemoteWorker.terminate(timeout=0, force=True) kills the CALLING process.

Real server process, real TCP.  The worker's target swallows every Exception in a loop, so the graceful
WorkerTerminatedError has no effect and the server has to kill the backend.  On the parent side terminate()
then joins the local frontend thread for `timeout` (= 0) seconds and, if that thread has not finished yet,
"forces" by os.kill(os.getpid(), SIGTERM) - i.e. it sends SIGTERM to the user's own process.

The scenario runs in a subprocess (this script with the argument 'child'); the parent looks at the return
code: -15 (killed by SIGTERM) instead of a normal exit means the defect showed.  With timeout=0 the first
call usually reports False (the backend has been signalled but is not dead yet), so - as a caller who wants the
worker gone would - terminate(timeout=0, force=True) is simply called again until it reports True (at most
200 calls, no pause).  One of these calls finds the backend dead while the local frontend thread is still
finishing, and kills the caller.
"""
import os
import signal
import subprocess
import sys
import time


def stubborn_loop():
    while True:
        try:
            time.sleep(0.01)
        except Exception:
            pass


def child_main():
    from pyworkers.remote import RemoteWorker
    from pyworkers.remote_server import spawn_server
    srv = spawn_server(('127.0.0.1', 0))
    print(f'SERVER_PID {srv.pid}', flush=True)
    w = RemoteWorker(stubborn_loop, host=srv.addr)
    print(f'WORKER_PID {w.pid}', flush=True)
    time.sleep(0.5)
    for i in range(200):
        r = w.terminate(timeout=0, force=True)
        print(f'TERMINATE_RETURNED {i} {r}', flush=True)
        if r:
            break
    srv.terminate(timeout=2, force=True)
    print('CHILD_DONE', flush=True)
    os._exit(0)


def main():
    env = dict(os.environ)
    try:
        p = subprocess.run([sys.executable, os.path.abspath(__file__), 'child'], env=env, timeout=30,
                           stdout=subprocess.PIPE, stderr=subprocess.DEVNULL, text=True)
        rc, out = p.returncode, p.stdout
    except subprocess.TimeoutExpired as e:
        rc, out = 'timeout', (e.stdout or b'')
        if isinstance(out, bytes):
            out = out.decode(errors='replace')
    print(out, file=sys.stderr)
    for line in out.splitlines():
        if line.startswith(('SERVER_PID', 'WORKER_PID')):
            try:
                os.kill(int(line.split()[1]), signal.SIGKILL)
            except (OSError, ValueError):
                pass
    returned = [l for l in out.splitlines() if l.startswith('TERMINATE_RETURNED')]
    if rc == -signal.SIGTERM and 'CHILD_DONE' not in out:
        print(f'REPRODUCED: the process calling RemoteWorker.terminate(timeout=0, force=True) was killed by SIGTERM (returncode {rc}) during call #{len(returned) + 1}; {len(returned)} earlier call(s) returned False')
        sys.exit(1)
    print(f'NOT REPRODUCED (returncode {rc}, {returned})')
    sys.exit(0)


if __name__ == '__main__':
    if len(sys.argv) > 1 and sys.argv[1] == 'child':
        child_main()
    else:
        main()
