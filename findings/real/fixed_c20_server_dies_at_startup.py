"""C20 (fixed) - spawn_server() / RemoteServerProcess(...) blocks forever when the server process dies while it starts.

Real processes.  The server child is made to die before it reports its address by giving it an address object whose
unpickling in the spawned child calls os._exit(3) (stands for any crash of the child during start-up: failing import, OOM kill,
...).  ProcessWorker._start notices the death through the child's sentinel, but RemoteServerProcess._start then waited for
the address with a bare recv() on a pipe whose other end the parent itself still holds open - no end-of-file, no return.

Exit 1 + 'REPRODUCED' if the constructor has not returned after 5 s, else 0.
"""
import os
import sys
import threading

from pyworkers.remote_server import RemoteServerProcess


class Bomb:
    def __reduce__(self):
        return (os._exit, (3,))


def main():
    out = {}

    def ctor():
        try:
            out['srv'] = RemoteServerProcess(('127.0.0.1', Bomb()))
        except BaseException as e:   # noqa
            out['exc'] = e

    t = threading.Thread(target=ctor, daemon=True)
    t.start()
    t.join(5)
    if t.is_alive():
        print('REPRODUCED: RemoteServerProcess(...) has not returned 5 s after its child process died during start-up')
        sys.stdout.flush()
        os._exit(1)
    srv = out.get('srv')
    print(f'NOT REPRODUCED: constructor returned ({"raised " + repr(out["exc"]) if "exc" in out else "addr=" + repr(srv.addr) + " alive=" + repr(srv.is_alive())})')
    sys.stdout.flush()
    os._exit(0)


if __name__ == '__main__':
    main()
