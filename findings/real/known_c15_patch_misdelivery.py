"""C15 (known finding) - remote_pickle.loads(..., extra_kwargs=patches) delivers patches to the wrong object.

Pure (no processes).  T opts in to remote pickling with `__getstate__(self, remote=False)` and has a
`__setstate__`.
Part 1: top = T(); top.items = [T()]  (an opt-in object held inside a list).  Loading with
        extra_kwargs={'sock': 1} must put attribute `sock` on the top-level object; instead it lands on the
        object inside the list and the top-level object gets nothing.
Part 2: cyclic graph top.child = T(); top.child.parent = top.  Loading without patches works; loading with
        extra_kwargs={'x': 1} raises AssertionError from the patch-frame bookkeeping.
"""
import sys

from pyworkers import remote_pickle


class T(metaclass=remote_pickle.SupportRemoteGetStateMeta):
    def __getstate__(self, remote=False):
        return dict(self.__dict__)

    def __setstate__(self, state):
        self.__dict__.update(state)


def part1():
    top = T()
    top.name = 'top'
    inner = T()
    inner.name = 'inner'
    top.items = [inner]
    data = remote_pickle.dumps(top)
    plain = remote_pickle.loads(data)
    assert plain.name == 'top' and plain.items[0].name == 'inner'
    try:
        got = remote_pickle.loads(data, extra_kwargs={'sock': 1})
    except BaseException as e: # noqa
        return f'list-held opt-in object: patched load raised {type(e).__name__}: {e}'
    on_top = getattr(got, 'sock', None)
    on_inner = getattr(got.items[0], 'sock', None)
    print(f'part1: top.sock={on_top!r} top.items[0].sock={on_inner!r}', file=sys.stderr)
    if on_top != 1 or on_inner is not None:
        return f"patch {{'sock': 1}} for the top-level object: top.sock={on_top!r}, top.items[0].sock={on_inner!r} (delivered to the list-held object)"
    return None


def part2():
    top = T()
    top.child = T()
    top.child.parent = top
    data = remote_pickle.dumps(top)
    plain = remote_pickle.loads(data)
    assert plain.child.parent is plain
    try:
        got = remote_pickle.loads(data, extra_kwargs={'x': 1})
    except AssertionError as e:
        return f'cyclic graph: load without patches works, load with extra_kwargs={{"x": 1}} raises AssertionError({e})'
    except BaseException as e: # noqa
        return f'cyclic graph: patched load raised {type(e).__name__}: {e}'
    print(f'part2: top.x={getattr(got, "x", None)!r}', file=sys.stderr)
    if getattr(got, 'x', None) != 1 or got.child.parent is not got:
        return f'cyclic graph: patched load gave top.x={getattr(got, "x", None)!r}'
    return None


def run_isolated(fn):
    # a failed patched load leaves thread-local bookkeeping behind: run each part in a fresh thread
    import threading
    out = {}

    def body():
        try:
            out['r'] = fn()
        except BaseException as e: # noqa
            out['r'] = f'{fn.__name__}: unexpected {type(e).__name__}: {e}'
    t = threading.Thread(target=body, daemon=True)
    t.start()
    t.join(10)
    if t.is_alive():
        return f'{fn.__name__}: hung'
    return out.get('r')


def main():
    problems = [p for p in (run_isolated(part1), run_isolated(part2)) if p]
    if problems:
        print('REPRODUCED: ' + '; '.join(problems))
        sys.exit(1)
    print('NOT REPRODUCED')
    sys.exit(0)


if __name__ == '__main__':
    main()
