"""C12 (fixed) - a server that is stopped gracefully while it is starting a worker cannot stop: the half-started backend is
unknown to it, nobody terminates it, and the exiting server process waits for this non-daemon child for ever.

Real server, real processes, real TCP; no monkeypatching.  A RemoteWorker is being constructed (its backend takes ~0.1-0.3 s to
spawn) while another thread stops the server gracefully.  When the stop request reaches the server's main thread inside
RemoteWorker.__setstate__ after the backend process has been started, the backend is not yet in the server's `children`
list: nobody terminates it.  Observed here through /proc: a child of the server process that is still running after the
server has been stopped; on the parent side the constructor (or a later wait()) blocks because the orphan keeps the control
socket open.

Several delays are tried (the stop has to arrive inside a window of a few hundred milliseconds).  Exit 1 + 'REPRODUCED' when in
some attempt terminate(timeout=3, force=False) reports that the server is still alive after 3 s while one of its backend
processes is still running (or a backend survives the server), else 0.
"""
import os
import signal
import sys
import threading
import time

from pyworkers.remote import RemoteWorker
from pyworkers.remote_server import spawn_server


def sleeper(t):
    time.sleep(t)
    return t


def children_of(pid):
    out = []
    for d in os.listdir('/proc'):
        if d.isdigit():
            try:
                with open(f'/proc/{d}/stat') as f:
                    st = f.read()
                ppid = int(st[st.rindex(')') + 2:].split()[1])
                state = st[st.rindex(')') + 2:].split()[0]
                if ppid == pid and state != 'Z':
                    out.append(int(d))
            except Exception:
                pass
    return out


def alive(pid):
    try:
        with open(f'/proc/{pid}/stat') as f:
            st = f.read()
        return st[st.rindex(')') + 2:].split()[0] != 'Z'
    except Exception:
        return False


def attempt(delay):
    srv = spawn_server(('127.0.0.1', 0))
    spid = srv.pid
    box = {}

    def ctor():
        try:
            box['w'] = RemoteWorker(sleeper, args=[60], host=srv.addr)
        except BaseException as e:   # noqa
            box['exc'] = e

    t = threading.Thread(target=ctor, daemon=True)
    t.start()
    time.sleep(delay)
    seen = set(children_of(spid))
    t0 = time.time()
    r = srv.terminate(timeout=3, force=False)
    seen |= set(children_of(spid))
    stuck = (not r) and alive(spid) and [p for p in seen if alive(p)]
    if not r:
        try:
            os.kill(spid, signal.SIGTERM)
        except Exception:
            pass
    time.sleep(5)
    left = [p for p in seen if alive(p)]
    t.join(0.1)
    info = f'delay {delay}: terminate(force=False)->{r} in {time.time() - t0 - 5:.1f}s, constructor {"blocked" if t.is_alive() else ("raised " + type(box["exc"]).__name__ if "exc" in box else "returned")}, backends seen {sorted(seen)}, still running {left}'
    print(info, file=sys.stderr)
    for p in left + [spid]:
        try:
            os.kill(p, signal.SIGKILL)
        except Exception:
            pass
    if stuck:
        info += f'; server {spid} still alive after terminate(timeout=3, force=False) with backend(s) {stuck} running'
    return left or stuck, info


def main():
    for delay in (0.05, 0.1, 0.15, 0.2, 0.25, 0.3, 0.08, 0.12, 0.18, 0.22, 0.35, 0.4):
        left, info = attempt(delay)
        if left:
            print('REPRODUCED: ' + info)
            sys.stdout.flush()
            os._exit(1)
    print('NOT REPRODUCED')
    sys.stdout.flush()
    os._exit(0)


if __name__ == '__main__':
    main()
