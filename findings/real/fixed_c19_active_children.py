"""C19 - Worker.active_children() never drops dead workers.

Five ThreadWorkers are created and waited for (all dead, is_alive() False).  The original active_children()
assigns the pruned list to a misspelt attribute (Worker._children), so the registry is never pruned and the
five dead workers (with their results) are yielded and retained forever.  Repaired: nothing is yielded.
"""
import sys

from pyworkers.thread import ThreadWorker
from pyworkers.worker import Worker


def square(x):
    return x * x


def main():
    workers = [ThreadWorker(square, args=[i]) for i in range(5)]
    for w in workers:
        assert w.wait(5)
        assert not w.is_alive()
    listed = list(Worker.active_children())
    dead_listed = [w for w in listed if not w.is_alive()]
    if dead_listed:
        print(f'REPRODUCED: active_children() yields {len(dead_listed)} dead workers (all finished, is_alive() False)')
        sys.exit(1)
    print('NOT REPRODUCED')
    sys.exit(0)


if __name__ == '__main__':
    main()
