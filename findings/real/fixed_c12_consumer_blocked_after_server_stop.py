"""C12 / C06 (fixed) - a parent thread blocked in next_result() on a busy persistent remote worker stays blocked for ever when the
server is stopped.

Real server, real processes, real TCP.  A persistent remote worker is busy with a long input, a consumer thread of the parent sits
in next_result().  The server is stopped (server.terminate(), or SIGTERM): it kills the backend - which therefore never sends its
end-of-stream marker - and reports the backend's death to the parent itself, as a *final result* message.
PersistentRemoteWorker._fetch_results took that message, stored the outcome and closed its end of the results queue without
putting the end-of-stream marker it puts on every other abnormal end; the worker becomes dead with has_error True, but the consumer
waits on the queue for ever.

Exit 1 + 'REPRODUCED' if a consumer is still blocked 5 s after the worker is dead, else 0.
"""
import os
import signal
import sys
import threading
import time

from pyworkers.persistent_remote import PersistentRemoteWorker
from pyworkers.remote_server import spawn_server


def slow(x):
    time.sleep(1000)
    return x


def one(how):
    srv = spawn_server(('127.0.0.1', 0))
    try:
        w = PersistentRemoteWorker(slow, host=srv.addr)
        w.enqueue(1)
        out = []

        def consume():
            try:
                out.append(('ok', w.next_result()))
            except BaseException as e:   # noqa
                out.append(('exc', type(e).__name__))
        c = threading.Thread(target=consume, daemon=True)
        c.start()
        time.sleep(0.7)
        if how == 'terminate':
            srv.terminate(timeout=5)
        else:
            os.kill(srv.pid, signal.SIGTERM)
        t0 = time.time()
        while time.time() - t0 < 15 and w.is_alive():
            time.sleep(0.05)
        dead = not w.is_alive()
        c.join(5)
        print(f'{how}: worker dead={dead} has_error={w.has_error} consumer blocked={c.is_alive()} consumer got={out}')
        return dead and c.is_alive()
    finally:
        try:
            srv.terminate(timeout=2)
        except Exception:
            pass


def main():
    # whether the server's own report or the end of the connection reaches the parent first is a race inside the server
    # (its main thread against its remote control thread, both woken by the backend's death): try a number of times
    n = int(os.environ.get('ATTEMPTS', '15'))
    bad = []
    for i in range(n):
        bad = [how for how in ('terminate', 'sigterm') if one(how)]
        if bad:
            break
    if bad:
        print('REPRODUCED: consumer still blocked in next_result() after the server was stopped by', bad)
        return 1
    print('not reproduced')
    return 0


if __name__ == '__main__':
    rc = main()
    sys.stdout.flush()
    os._exit(rc)
