"""C20 - RemoteWorker(None, context=<unknown id>, host=addr) never returns.

Real server process, real TCP.  The server does not know context 12345; the original server just skips the
request and keeps the connection open, and the original constructor waits on an event that is only set when
the handshake succeeds - so the constructor blocks forever.  The repaired server closes the connection and
the repaired constructor raises (ConnectionClosedError) quickly.
"""
import os
import signal
import sys
import threading
import time

from pyworkers.remote import RemoteWorker
from pyworkers.remote_server import spawn_server


def create(addr, out):
    t0 = time.time()
    try:
        out['worker'] = RemoteWorker(None, context=12345, host=addr)
    except BaseException as e: # noqa
        out['exc'] = e
    out['dt'] = time.time() - t0


def main():
    srv = spawn_server(('127.0.0.1', 0))
    problem = None
    try:
        assert srv.is_alive(), srv.error
        out = {}
        t = threading.Thread(target=create, args=(srv.addr, out), daemon=True)
        t.start()
        t.join(5)
        if t.is_alive():
            problem = 'RemoteWorker(None, context=12345) did not return or raise within 5 s'
        elif 'exc' not in out:
            problem = f'constructor returned a worker for an unknown context: {out!r}'
        else:
            print(f'constructor raised {out["exc"]!r} after {out["dt"]:.2f} s', file=sys.stderr)
    finally:
        pid = srv.pid
        try:
            srv.terminate(timeout=2, force=True)
        except Exception:
            pass
        try:
            if srv.is_alive():
                os.kill(pid, signal.SIGKILL)
        except Exception:
            pass

    if problem:
        print('REPRODUCED: ' + problem)
        sys.stdout.flush()
        os._exit(1) # a non-daemon frontend thread of the hung worker would keep the interpreter alive
    print('NOT REPRODUCED')
    sys.stdout.flush()
    os._exit(0)


if __name__ == '__main__':
    main()
