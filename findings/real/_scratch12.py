import os, sys, time, threading, signal, faulthandler
def stubborn_loop():
    while True:
        try:
            time.sleep(0.01)
        except Exception:
            pass
if __name__ == '__main__':
    from pyworkers.remote import RemoteWorker
    from pyworkers.remote_server import spawn_server
    faulthandler.dump_traceback_later(6, exit=True)
    srv = spawn_server(('127.0.0.1', 0))
    print('SERVER_PID', srv.pid, flush=True)
    w = RemoteWorker(stubborn_loop, host=srv.addr)
    print('WORKER_PID', w.pid, flush=True)
    time.sleep(0.5)
    rs = []
    for i in range(200):
        r = w.terminate(timeout=0, force=True)
        rs.append(r)
        if r: break
    print('results', rs, flush=True)
    srv.terminate(timeout=2, force=True)
    os._exit(0)
