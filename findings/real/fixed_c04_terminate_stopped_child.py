"""C04 - ProcessWorker.terminate(timeout=0.5, force=True) never returns for a stopped (SIGSTOP) child.

The child's control thread cannot answer the 'terminate' request while the process is stopped; the original
terminate() does an unbounded get() on the control pipe before it ever looks at `timeout` or `force`.
Repaired: the wait for the answer is bounded by `timeout`, so terminate() returns (its value may be False,
see known_c04_sigstop_force.py).
"""
import os
import signal
import sys
import threading
import time

from pyworkers.process import ProcessWorker


def sleeping_loop():
    while True:
        time.sleep(0.05)


def call_terminate(w, out):
    t0 = time.time()
    try:
        out['value'] = w.terminate(timeout=0.5, force=True)
    except BaseException as e: # noqa
        out['exc'] = e
    out['dt'] = time.time() - t0


def main():
    w = ProcessWorker(sleeping_loop)
    pid = w.pid
    problem = None
    try:
        time.sleep(0.5)
        os.kill(pid, signal.SIGSTOP)
        time.sleep(0.2)
        out = {}
        t = threading.Thread(target=call_terminate, args=(w, out), daemon=True)
        t.start()
        t.join(5)
        if t.is_alive():
            problem = 'terminate(timeout=0.5, force=True) on a SIGSTOPped child did not return within 5 s'
        else:
            print(f'terminate returned: {out!r}', file=sys.stderr)
            if 'exc' in out:
                problem = f'terminate raised {out["exc"]!r}'
    finally:
        for sig in (signal.SIGCONT, signal.SIGKILL):
            try:
                os.kill(pid, sig)
            except OSError:
                pass

    if problem:
        print('REPRODUCED: ' + problem)
        sys.stdout.flush()
        os._exit(1)
    print('NOT REPRODUCED')
    sys.stdout.flush()
    os._exit(0)


if __name__ == '__main__':
    main()
