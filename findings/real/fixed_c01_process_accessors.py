"""C01 - ProcessWorker accessors raise / change their answer when the child's exception cannot be rebuilt.

The target raises NeedsArgs(Exception) whose __init__ needs two positional arguments; pickle can serialise
it in the child but cannot rebuild it in the parent (TypeError in NeedsArgs.__init__).  Original: the first
read of has_error after wait() raises TypeError, the second read returns True (unstable accessors).
Repaired: has_error is True, error is None, and repeated reads agree.
"""
import sys

from pyworkers.process import ProcessWorker


class NeedsArgs(Exception):
    def __init__(self, a, b):
        super().__init__(f'{a}{b}')


def raises_needsargs():
    raise NeedsArgs('x', 'y')


def main():
    w = ProcessWorker(raises_needsargs)
    assert w.wait(20), 'child did not finish'
    reads = []
    for _ in range(3):
        try:
            reads.append(('value', w.has_error))
        except BaseException as e: # noqa
            reads.append(('raised', type(e).__name__))
    try:
        err = ('value', w.error)
    except BaseException as e: # noqa
        err = ('raised', type(e).__name__)
    print(f'has_error reads: {reads}, error: {err}', file=sys.stderr)
    if any(kind == 'raised' for kind, _ in reads) or len(set(reads)) != 1 or err[0] == 'raised':
        print(f'REPRODUCED: has_error reads after wait(): {reads} (accessor raises, then answers differently)')
        sys.exit(1)
    if reads[0] != ('value', True):
        print(f'REPRODUCED: has_error is {reads[0][1]!r} for a worker whose target raised')
        sys.exit(1)
    print('NOT REPRODUCED')
    sys.exit(0)


if __name__ == '__main__':
    main()
