"""C11 (known finding) - one client that never connects its control socket blocks the server for everybody.

Real server process, real TCP.  Client A sends a complete, valid worker request over a real socket (header
plus a pickled RemoteWorker, exactly what RemoteWorker._run_frontend sends), reads the announced control
socket address - and then never connects to it (think of a client host that crashed or was partitioned at
that moment).  The server's single accept loop is inside RemoteWorker.__setstate__ -> incoming.accept() for
A's control connection, with no timeout.  A second, perfectly normal `RemoteWorker(square, args=[2],
host=addr)` created afterwards gets no answer: it does not finish within 5 s (it never will).
"""
import os
import signal
import socket
import sys
import threading
import time

from pyworkers.remote import RemoteWorker, send_msg, recv_msg
from pyworkers.remote_server import spawn_server


def square(x):
    return x * x


def normal_client(addr, out):
    t0 = time.time()
    try:
        w = RemoteWorker(square, args=[2], host=addr)
        out['waited'] = w.wait(10)
        out['result'] = w.result
    except BaseException as e: # noqa
        out['exc'] = e
    out['dt'] = time.time() - t0


def main():
    srv = spawn_server(('127.0.0.1', 0))
    problem = None
    a = None
    try:
        assert srv.is_alive(), srv.error
        addr = srv.addr

        # sanity: the server works
        out0 = {}
        t0 = threading.Thread(target=normal_client, args=(addr, out0), daemon=True)
        t0.start()
        t0.join(15)
        assert out0.get('result') == 4, f'server does not even serve the first client: {out0!r}'

        # client A: full worker request, then silence
        request = RemoteWorker(square, args=[1], host=addr, run=False) # not started: only used as the message
        a = socket.socket(socket.AF_INET, socket.SOCK_STREAM)
        a.connect(addr)
        send_msg(a, (None, True))
        send_msg(a, request)
        a.settimeout(5)
        ctrl_addr = recv_msg(a)
        print(f'client A was told to connect its control socket to {ctrl_addr} - and does not', file=sys.stderr)

        # client B: normal
        out = {}
        t = threading.Thread(target=normal_client, args=(addr, out), daemon=True)
        t.start()
        t.join(5)
        if t.is_alive():
            problem = f'a normal RemoteWorker(square, args=[2]) got no service within 5 s (first client: {out0["dt"]:.2f} s) while another client has not connected its control socket; server alive: {srv.is_alive()}'
        elif out.get('result') != 4:
            problem = f'normal client failed: {out!r}'
        else:
            print(f'normal client served in {out["dt"]:.2f} s', file=sys.stderr)
    finally:
        if a is not None:
            a.close()
        pid = srv.pid
        try:
            srv.terminate(timeout=1, force=True)
        except Exception:
            pass
        try:
            if srv.is_alive():
                os.kill(pid, signal.SIGKILL)
        except Exception:
            pass

    if problem:
        print('REPRODUCED: ' + problem)
        sys.stdout.flush()
        os._exit(1)
    print('NOT REPRODUCED')
    sys.stdout.flush()
    os._exit(0)


if __name__ == '__main__':
    main()
