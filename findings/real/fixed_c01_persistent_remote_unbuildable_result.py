"""C01 / C06 (fixed) - a persistent remote worker that returns a value the parent cannot rebuild never gets an outcome on the
parent side and its result stream never ends.

Real server, real processes, real TCP, no fault at all.  The target returns an object whose unpickling raises (stands for: a
class that only exists in the child, a __setstate__ that fails here, a torn message, ...).  recv_msg in the parent-side
frontend thread raises that exception (not ConnectionClosedError); RemoteWorker._fetch_results has handled this since fix
e080147, but PersistentRemoteWorker overrides _fetch_results and let the frontend thread die: no final result
(has_error None for ever, even after terminate()), no end-of-stream marker (a consumer blocked in next_result() / results_iter()
waits for ever).

Exit 1 + 'REPRODUCED' if has_error is None 3 s after the worker is dead or the consumer is still blocked, else 0.
"""
import os
import sys
import threading
import time

from pyworkers.persistent_remote import PersistentRemoteWorker
from pyworkers.remote_server import spawn_server


def boom():
    raise RuntimeError('this value cannot be rebuilt')


class Unbuildable:
    def __reduce__(self):
        return (boom, ())


def target(x):
    return Unbuildable() if x == 2 else x * x


died = []
threading.excepthook = lambda a: died.append(f'{a.exc_type.__name__} in thread "{a.thread.name}"')


def main():
    srv = spawn_server(('127.0.0.1', 0))
    problems = []
    try:
        w = PersistentRemoteWorker(target, host=srv.addr)
        got = []
        done = threading.Event()

        def consume():
            try:
                for r in w.results_iter():
                    got.append(r)
            finally:
                done.set()
        c = threading.Thread(target=consume, daemon=True)
        c.start()
        for x in (1, 2, 3):
            w.enqueue(x)
        time.sleep(1.0)
        w.terminate(timeout=2, force=True)
        t0 = time.time()
        while time.time() - t0 < 3 and (w.is_alive() or w.has_error is None or not done.is_set()):
            time.sleep(0.05)
        print(f'is_alive={w.is_alive()} has_error={w.has_error} consumer-finished={done.is_set()} got={got} thread-deaths={died}', file=sys.stderr)
        if not w.is_alive() and w.has_error is None:
            problems.append('worker is dead but has_error is None 3 s later')
        if not done.is_set():
            problems.append('results_iter() still blocked 3 s after the worker died')
        if died:
            problems.append('; '.join(died))
    finally:
        try:
            srv.terminate(timeout=1, force=True)
        except Exception:
            pass
    if problems and not (len(problems) == 1 and died):
        print('REPRODUCED: ' + ' | '.join(problems))
        sys.stdout.flush()
        os._exit(1)
    print('NOT REPRODUCED')
    sys.stdout.flush()
    os._exit(0)


if __name__ == '__main__':
    main()
