"""C06 (fixed) - a persistent thread worker with a caller-supplied results pipe (as the Pool uses it) never ends its result
stream when terminate() lands while the worker is already cleaning up.

Real threads.  The results pipe is caller-supplied (a legitimate constructor argument) and its child end is slow: every put()
takes 0.3 s before it writes.  The worker is closed (so it leaves its loop and starts _cleanup(), whose first action is to put
the end-of-stream marker) and terminate() is called while that put() is in progress.  The WorkerTerminatedError is raised
inside _cleanup() before the marker is written; ThreadWorker._run had `finally: self._cleanup()` without a second try, so the
marker was never written and the pipe never closed: a consumer multiplexing on the pipe (the Pool) waits for ever.

Exit 1 + 'REPRODUCED' if neither an end marker nor EOF arrives within 5 s after the worker thread is gone, else 0.
"""
import os
import sys
import threading
import time

from pyworkers.persistent_thread import PersistentThreadWorker
from pyworkers.utils import Pipe


def square(x):
    return x * x


class SlowEnd:
    def __init__(self, real):
        self._real = real

    def put(self, x):
        time.sleep(0.3)
        return self._real.put(x)

    def __getattr__(self, name):
        return getattr(self._real, name)


class SlowPipe:
    def __init__(self):
        self._pipe = Pipe()
        self._child = SlowEnd(self._pipe.child_end)

    @property
    def parent_end(self):
        return self._pipe.parent_end

    @property
    def child_end(self):
        return self._child


def main():
    pipe = SlowPipe()
    w = PersistentThreadWorker(square, results_pipe=pipe)
    w.enqueue(3)
    first = pipe.parent_end.get()
    assert first[1] is True and first[2] == 9, first
    w.close()                      # the worker leaves its loop and enters _cleanup(): put(end marker) ... 0.3 s
    time.sleep(0.1)
    r = w.terminate(timeout=2, force=False)
    alive = w._child.is_alive()
    got = None
    t0 = time.time()
    while time.time() - t0 < 5:
        try:
            if pipe.parent_end.poll(0.2):
                got = pipe.parent_end.get()
                break
        except (EOFError, OSError) as e:
            got = ('EOF', repr(e))
            break
    print(f'terminate -> {r}, worker thread alive: {alive}, end of stream seen: {got}', file=sys.stderr)
    if got is None:
        print(f'REPRODUCED: worker thread is gone (terminate() -> {r}) but neither an end-of-stream marker nor EOF arrived on its results pipe within 5 s')
        sys.stdout.flush()
        os._exit(1)
    print(f'NOT REPRODUCED (end of stream: {got})')
    sys.stdout.flush()
    os._exit(0)


if __name__ == '__main__':
    main()
