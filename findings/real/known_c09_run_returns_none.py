"""C09 (known finding) - Pool.run silently returns None once every worker of the pool has died.

Pool with one persistent THREAD worker whose target always raises.  The first run over [1] correctly raises
PoolError ("all workers have died").  The ids of dead workers stay in the pool's closed set, so a second
`pool.run(iter([2, 3]))` hits the early `return` ("no workers") and gives None - neither a result list nor a
PoolError - although two inputs were not processed.
"""
import sys

from pyworkers.pool import Pool, PoolError
from pyworkers.worker import WorkerType


def fails(x):
    raise ValueError(x)


def main():
    problem = None
    pool = Pool(fails, close_timeout=2)
    try:
        pool.add_worker(WorkerType.THREAD)
        try:
            first = pool.run(iter([1]))
            first = f'returned {first!r}'
        except PoolError as e:
            first = 'PoolError'
        try:
            second = pool.run(iter([2, 3]))
            second_desc = f'returned {second!r}'
        except PoolError as e:
            second = e
            second_desc = 'PoolError'
        print(f'first run: {first}; second run: {second_desc}', file=sys.stderr)
        if second is None:
            problem = f'first run: {first}; second run over [2, 3] returned None silently (no result list, no PoolError)'
    finally:
        try:
            pool.close()
        except Exception:
            pass
    if problem:
        print('REPRODUCED: ' + problem)
        sys.exit(1)
    print('NOT REPRODUCED')
    sys.exit(0)


if __name__ == '__main__':
    main()
