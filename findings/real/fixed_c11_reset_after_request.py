"""C11 - a client that resets its data connection right after sending a complete worker request kills the server.

Real server process, real TCP.  The client sends a complete, valid worker request (header + pickled RemoteWorker) and
closes the data connection with SO_LINGER(1, 0), i.e. with RST.  While unpickling the worker the server evaluates
`self._socket.getpeername()` for a debug message; on a reset connection that raises OSError(ENOTCONN), which is not a
ConnectionClosedError, so the accept loop re-raises it and the server process ends.
REPRODUCED (exit 1) = the server process is dead one second later.
"""
import os
import signal
import socket
import struct
import sys
import time

from pyworkers.remote import RemoteWorker, send_msg
from pyworkers.remote_server import spawn_server


def square(x):
    return x * x


def main():
    srv = spawn_server(('127.0.0.1', 0))
    problem = None
    try:
        assert srv.is_alive(), srv.error
        addr = srv.addr
        request = RemoteWorker(square, args=[1], host=addr, run=False)   # only used as the message
        for attempt in range(5):
            a = socket.socket(socket.AF_INET, socket.SOCK_STREAM)
            a.setsockopt(socket.SOL_SOCKET, socket.SO_LINGER, struct.pack('ii', 1, 0))
            a.connect(addr)
            send_msg(a, (None, True))
            send_msg(a, request)
            a.close()       # RST
            time.sleep(1.0)
            if not srv.is_alive():
                problem = f'server process died after a client reset its connection behind a complete worker request (attempt {attempt + 1}): {srv.error!r}'
                break
        if problem is None:
            w = RemoteWorker(square, args=[3], host=addr)
            assert w.wait(10) and w.result == 9, 'server alive but does not serve'
    finally:
        pid = srv.pid
        try:
            srv.terminate(timeout=1, force=True)
        except Exception:
            pass
        try:
            os.kill(pid, signal.SIGKILL)
        except (ProcessLookupError, TypeError):
            pass
    if problem:
        print('REPRODUCED:', problem)
        return 1
    print('NOT REPRODUCED')
    return 0


if __name__ == '__main__':
    sys.exit(main())
