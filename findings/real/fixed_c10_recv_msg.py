"""C10 - pyworkers.remote.recv_msg does not read messages exactly (real sockets, socket.socketpair()).

(a) A message whose 4-byte length header arrives in two TCP segments (2 bytes, pause, rest) makes the
    original recv_msg raise a spurious ConnectionClosedError (struct.error on a short header) although the
    peer is alive and the complete message arrives 0.3 s later.
(b) A peer that sends the header and half of the body and then closes makes the original recv_msg spin
    forever in `while data_len:` (recv() keeps returning b'').

The repaired recv_msg returns the message in (a) and raises ConnectionClosedError in (b).
"""
import io
import socket
import sys
import threading
import time

from pyworkers.remote import send_msg, recv_msg, ConnectionClosedError


class _Buf:
    ''' Minimal socket stand-in to capture the exact bytes send_msg produces. '''
    def __init__(self):
        self.data = io.BytesIO()

    def sendall(self, b):
        self.data.write(b)


def wire_bytes(msg):
    buf = _Buf()
    send_msg(buf, msg)
    return buf.data.getvalue()


def receiver(sock, out):
    try:
        out['value'] = recv_msg(sock)
    except BaseException as e: # noqa
        out['exc'] = e


def part_a():
    raw = wire_bytes({'hello': 'world', 'n': list(range(10))})
    a, b = socket.socketpair()
    out = {}
    t = threading.Thread(target=receiver, args=(b, out), daemon=True)
    t.start()
    a.sendall(raw[:2])
    time.sleep(0.3)
    a.sendall(raw[2:])
    t.join(3)
    hung = t.is_alive()
    a.close()
    if hung:
        return 'recv_msg hung on a split header'
    b.close()
    if 'exc' in out:
        if isinstance(out['exc'], ConnectionClosedError):
            return 'split header -> spurious ConnectionClosedError (peer alive, message complete)'
        return f'split header -> unexpected {out["exc"]!r}'
    if out.get('value') != {'hello': 'world', 'n': list(range(10))}:
        return f'split header -> wrong message {out.get("value")!r}'
    return None


def part_b():
    raw = wire_bytes(b'x' * 1000)
    body = raw[4:]
    a, b = socket.socketpair()
    out = {}
    t = threading.Thread(target=receiver, args=(b, out), daemon=True)
    t.start()
    a.sendall(raw[:4] + body[:len(body) // 2])
    a.close()
    t.join(3)
    if t.is_alive():
        # the daemon thread keeps spinning on recv() == b''; closing its socket makes it stop with OSError
        try:
            b.close()
        except OSError:
            pass
        t.join(2)
        return 'peer closed inside the body -> recv_msg did not return within 3 s (busy loop on b"")'
    b.close()
    if isinstance(out.get('exc'), ConnectionClosedError):
        return None
    return f'peer closed inside the body -> {out!r} instead of ConnectionClosedError'


def main():
    problems = [p for p in (part_a(), part_b()) if p]
    if problems:
        print('REPRODUCED: ' + '; '.join(problems))
        sys.stdout.flush()
        sys.exit(1)
    print('NOT REPRODUCED')
    sys.exit(0)


if __name__ == '__main__':
    main()
