"""C03/C04 (fixed by the `fix:` commit that bases pyworkers.utils.Queue on queue.SimpleQueue) - terminate() of a
persistent thread worker hangs forever when its WorkerTerminatedError lands inside the standard library's queue code.

Real threads, real queue.Queue / threading.Condition, no simulator, no tracing.  The schedule is forced with the queue's own
mutex, exactly as a concurrent `enqueue()` from another thread would hold it:

  1. the worker finishes an item and goes back to `queue.Queue.get()` -> `with self.not_empty:` -> Condition.__enter__ ->
     `self._lock.__enter__()` where it has to wait for the mutex (somebody is in the middle of a put());
  2. terminate() makes WorkerTerminatedError pending in the worker (PyThreadState_SetAsyncExc) - a thread waiting for a lock
     does not notice;
  3. the mutex is released; the worker's C-level acquire returns and CPython raises the pending exception at the eval-breaker
     check right after that call: *inside* Condition.__enter__, with the mutex held, before the `with` statement is set up.
     Nothing ever releases the mutex again;
  4. terminate() goes on to `_release_child()` -> `queue.put(None)` -> blocks on the leaked mutex forever.

Exit status 1 + 'REPRODUCED' when terminate() has not returned after 7 s, 0 otherwise (repaired tree: the queue is a C object
without Python-level frames to land in, and without a `mutex` attribute).
"""
import os
import sys
import threading
import time
import traceback

import pyworkers.thread as pwthread
from pyworkers.persistent_thread import PersistentThreadWorker


def square(x):
    time.sleep(0.5)
    return x * x


def main():
    w = PersistentThreadWorker(square)
    q = w._args_pipe.parent_end
    mutex = getattr(q, 'mutex', None)
    w.enqueue(3)
    time.sleep(0.2)                          # the worker has fetched the item and is busy with it
    if mutex is not None:
        mutex.acquire()                      # "another thread is inside put()"
    assert w.next_result() == 9              # the worker is done with the item and is now entering get() again
    time.sleep(0.3)

    orig = pwthread.foreign_raise

    def foreign_raise(tid, exc):
        r = orig(tid, exc)                   # the exception is pending in the worker now
        if mutex is not None:
            mutex.release()                  # the concurrent put() finishes
            time.sleep(0.3)                  # ... and this thread is not scheduled for a moment
        return r
    pwthread.foreign_raise = foreign_raise

    out = {}

    def term():
        out['ret'] = w.terminate(timeout=2, force=False)

    t = threading.Thread(target=term, daemon=True)
    t.start()
    t.join(7)
    if t.is_alive():
        fr = sys._current_frames().get(t.ident)
        where = ''.join(traceback.format_stack(fr)[-4:]) if fr else ''
        print('REPRODUCED: terminate() of a persistent thread worker has not returned after 7 s '
              f'(worker thread alive: {w._child.is_alive()}); it is blocked in\n' + where)
        sys.stdout.flush()
        os._exit(1)
    print(f'NOT REPRODUCED: terminate() returned {out.get("ret")!r} (queue type: {type(q).__mro__[1].__module__}.{type(q).__mro__[1].__name__})')
    sys.stdout.flush()
    os._exit(0)


if __name__ == '__main__':
    main()
