"""C05 - persistent workers die on their first input when the default args are a tuple.

PersistentThreadWorker(add, args=(1, 2)); enqueue(5) should call add(5, 2) == 7.  The original do_work does
`args[0:n] = extra_args` on a deep copy of the tuple -> TypeError('tuple' object does not support item
assignment): the worker dies, next_result raises queue.Empty and has_error is True.  Repaired: 7.
"""
import queue
import sys

from pyworkers.persistent_thread import PersistentThreadWorker


def add(a, b):
    return a + b


def main():
    w = PersistentThreadWorker(add, args=(1, 2))
    problem = None
    try:
        w.enqueue(5)
        try:
            r = w.next_result(timeout=5)
            if r != 7:
                problem = f'next_result returned {r!r} instead of add(5, 2) == 7'
        except queue.Empty:
            w.wait(2)
            problem = f'no result: worker died, has_error={w.has_error}, error={w.error!r}'
    finally:
        w.close()
        if not w.wait(2):
            w.terminate(timeout=1)
    if problem:
        print('REPRODUCED: ' + problem)
        sys.exit(1)
    print('NOT REPRODUCED')
    sys.exit(0)


if __name__ == '__main__':
    main()
