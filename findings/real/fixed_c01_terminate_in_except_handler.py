"""C01 / C03 (fixed) - a process worker whose target failed reports *nothing* (has_error True, error None) when a graceful
terminate() lands while the child is reporting that failure.

Real processes, no monkeypatching.  The target raises an exception that takes 0.6 s to pickle (its __reduce__ sleeps - stands
for a large or slow-to-serialise exception payload); terminate(force=False) arrives while the child is inside the
`except Exception` handler of ProcessWorker._run, sending `((False, e), user_state)`.  The WorkerTerminatedError is raised
inside the handler, escapes it, and nothing is sent: the parent fabricates (False, None) although nothing was killed.

Exit 1 + 'REPRODUCED' if the dead worker has has_error True and error None, else 0 (repaired tree: error is the
WorkerTerminatedError).
"""
import os
import sys
import time

from pyworkers.process import ProcessWorker


class SlowError(Exception):
    def __reduce__(self):
        time.sleep(0.6)
        return (SlowError, self.args)


def target():
    raise SlowError('own failure')


def main():
    w = ProcessWorker(target)
    time.sleep(0.25)                       # the target has failed; the child is pickling the exception now
    r = w.terminate(timeout=5, force=False)
    w.wait(5)
    print(f'terminate -> {r}; is_alive={w.is_alive()} has_error={w.has_error} error={w.error!r}', file=sys.stderr)
    if w.has_error is True and w.error is None:
        print('REPRODUCED: nothing killed the child, yet the dead worker has has_error=True and error=None')
        sys.stdout.flush()
        os._exit(1)
    print(f'NOT REPRODUCED (error={w.error!r})')
    sys.stdout.flush()
    os._exit(0)


if __name__ == '__main__':
    main()
