"""C07 - Pool.run raises IndexError('pop from empty list') on a late result - test_retries_x2 scenario.

HONEST NOTE: this script did NOT reproduce the IndexError on this machine (0 of 50 runs on the original
tree); it prints NOT REPRODUCED on both trees.  The deterministic real-OS reproduction of the same defect is
fixed_c07_pool_late_result_slow_source.py.

Same scenario as tests/pool_test.py::PoolTest(PROCESS)::test_retries_x2: three persistent PROCESS workers,
target 1/x, inputs range(6), worker_extra_pending_inputs=1.  Input 0 kills its worker (ZeroDivisionError),
the input is retried on the other workers and kills them too - the expected outcome is a PoolError.
The defect: a worker's death is handled "while enqueueing" (enqueue raises, its pending list is cleared)
while a result it produced earlier is still unread in its pipe; when the original Pool.run reads that late
result it pops from the now empty pending list -> IndexError.  The repaired Pool.run accounts the late result
to the orphaned input.  The scenario is run up to 10 times (fresh pool each time); REPRODUCED only if a run
raises IndexError.

Why it does not show here (from reading Pool.run): with one extra pending input a worker holds at most two
inputs, and after the initial enqueueing Pool.run only enqueues to a worker right after it has read (and
popped) one of that worker's results - so at the moment an enqueue fails, the only input still pending on the
dead worker is the one that killed it, and no result can be unread.  Without an external kill the window
needs worker_extra_pending_inputs >= 2 (a death between two rounds of the initial enqueueing), which is what
the companion script does.  (The failure of test_retries_x2 for PROCESS workers seen on this machine on both
trees is a different thing: the test expects results for all of 1..5, but some inputs are lost with the dying
workers - `[1, 2, 3, 5] != [1, 2, 3, 4, 5]`.)
"""
import os
import signal
import sys
import threading

from pyworkers.pool import Pool, PoolError
from pyworkers.worker import WorkerType

TRIES = 10


def fails_for_some_x(x):
    return 1 / x


def one_run(out):
    p = Pool(fails_for_some_x, name='Test Pool', close_timeout=2)
    pids = []
    out['pids'] = pids
    try:
        with p:
            for i in range(3):
                w = p.add_worker(WorkerType.PROCESS, name=f'Worker_{i}', userid=i)
                pids.append(w.pid)
            try:
                out['results'] = p.run(iter(i for i in range(6)), worker_extra_pending_inputs=1)
                out['outcome'] = 'returned'
            except PoolError as e:
                out['outcome'] = 'PoolError'
                out['results'] = e.partial_results
    except IndexError as e:
        out['outcome'] = f'IndexError: {e}'
    except BaseException as e: # noqa
        out['outcome'] = f'{type(e).__name__}: {e}'


def main():
    outcomes = []
    hit = None
    for i in range(TRIES):
        out = {}
        t = threading.Thread(target=one_run, args=(out,), daemon=True)
        t.start()
        t.join(12)
        if t.is_alive():
            out['outcome'] = 'hung'
        for pid in out.get('pids', []):
            try:
                os.kill(pid, signal.SIGKILL)
            except OSError:
                pass
        outcomes.append(out.get('outcome'))
        print(f'run {i}: {out.get("outcome")} results={out.get("results")}', file=sys.stderr)
        if str(out.get('outcome')).startswith('IndexError'):
            hit = i
            break
        if out.get('outcome') == 'hung':
            break

    if hit is not None:
        print(f'REPRODUCED: Pool.run raised {outcomes[-1]!r} in run {hit + 1} of {TRIES} (expected PoolError)')
        sys.stdout.flush()
        os._exit(1)
    print(f'NOT REPRODUCED (outcomes of {len(outcomes)} runs: {sorted(set(map(str, outcomes)))})')
    sys.stdout.flush()
    os._exit(0)


if __name__ == '__main__':
    main()
