"""C07 (known finding) - Pool.run with a user enqueue_fn spins forever after a worker died.

Pool with two persistent THREAD workers (userid 0 and 1), retry enabled.  The target fails for input 0 only
on worker 0 (after 0.3 s); the user's enqueue_fn refuses to give input 0 to worker 1 (returns False) - e.g. an
affinity rule.  Worker 0 dies on input 0, worker 1 finishes input 1 and is idle.  handle_death() then loops
`while self._retries:` offering the retried input 0 to the idle worker 1; enqueue_fn refuses, the input goes
back to the head of the retry list, and the loop offers it again - forever, at 100 % CPU.  Pool.run never
returns (expected: PoolError with the unprocessed input).
"""
import os
import sys
import threading
import time

from pyworkers.pool import Pool, PoolError
from pyworkers.worker import WorkerType

calls = {'refused': 0}


def target(x, wid=None):
    if x == 0 and wid == 0:
        time.sleep(0.3)
        raise RuntimeError('worker 0 cannot process input 0')
    return x * 10


def enqueue_fn(worker, x):
    if worker.userid == 1 and x == 0:
        calls['refused'] += 1
        return False
    worker.enqueue(x)
    return True


def scenario(out):
    pool = Pool(target, retry=True, close_timeout=1)
    try:
        for i in range(2):
            pool.add_worker(WorkerType.THREAD, kwargs={'wid': i})
        out['pool'] = pool
        try:
            out['results'] = pool.run(iter([0, 1]), enqueue_fn=enqueue_fn)
            out['outcome'] = 'returned'
        except PoolError as e:
            out['outcome'] = 'PoolError'
            out['results'] = e.partial_results
    except BaseException as e: # noqa
        out['outcome'] = f'{type(e).__name__}: {e}'
    finally:
        try:
            pool.close()
        except Exception:
            pass


def main():
    out = {}
    t = threading.Thread(target=scenario, args=(out,), daemon=True)
    cpu0 = time.process_time()
    t.start()
    t.join(5)
    cpu = time.process_time() - cpu0
    if t.is_alive():
        print(f'REPRODUCED: Pool.run(enqueue_fn=...) did not return within 5 s and burnt {cpu:.1f} s of CPU; enqueue_fn was asked (and refused) {calls["refused"]} times for the same (worker 1, input 0) pair')
        sys.stdout.flush()
        os._exit(1) # the spinning thread and the idle worker thread cannot be stopped
    print(f'NOT REPRODUCED (outcome: {out.get("outcome")}, results: {out.get("results")}, refused: {calls["refused"]})')
    sys.stdout.flush()
    os._exit(0)


if __name__ == '__main__':
    main()
