"""C01 - RemoteWorker reports no outcome (has_error None) when its target dies of a BaseException.

Real server process, real TCP.  The target raises KeyboardInterrupt (not an Exception).  The original
backend initialises `result = None`, only `except Exception` assigns an outcome, and the finally block sends
that None to the parent: after wait() the worker is dead but has_error is None ("still running").
Repaired: has_error is True.
"""
import os
import signal
import sys

from pyworkers.remote import RemoteWorker
from pyworkers.remote_server import spawn_server


def raises_keyboard_interrupt():
    raise KeyboardInterrupt()


def main():
    srv = spawn_server(('127.0.0.1', 0))
    problem = None
    try:
        assert srv.is_alive(), srv.error
        w = RemoteWorker(raises_keyboard_interrupt, host=srv.addr)
        waited = w.wait(10)
        alive = w.is_alive()
        he = w.has_error
        print(f'wait={waited} is_alive={alive} has_error={he!r} error={w.error!r}', file=sys.stderr)
        if not waited or alive:
            problem = f'worker did not finish (wait={waited}, is_alive={alive})'
        elif he is not True:
            problem = f'worker is dead (is_alive() False) but has_error is {he!r}'
    finally:
        pid = srv.pid
        try:
            srv.terminate(timeout=2, force=True)
        except Exception:
            pass
        try:
            if srv.is_alive():
                os.kill(pid, signal.SIGKILL)
        except Exception:
            pass

    if problem:
        print('REPRODUCED: ' + problem)
        sys.stdout.flush()
        os._exit(1)
    print('NOT REPRODUCED')
    sys.stdout.flush()
    os._exit(0)


if __name__ == '__main__':
    main()
