"""C02 (known finding) - ProcessWorker.wait() deadlocks when the result is bigger than the OS pipe buffer.

The target returns bytes(5 MiB).  The child blocks writing the result into the result pipe (capacity
~64-93 KiB); the parent's wait() only joins the child process and reads the pipe after the child is dead -
so the child never finishes and wait(timeout=5) returns False although the target returned at once.
"""
import os
import signal
import sys
import time

from pyworkers.process import ProcessWorker


def big_result():
    return bytes(5 * 1024 * 1024)


def main():
    w = ProcessWorker(big_result)
    pid = w.pid
    t0 = time.time()
    done = w.wait(timeout=5)
    dt = time.time() - t0
    alive = w.is_alive()
    print(f'wait(5) -> {done} after {dt:.1f} s, is_alive={alive}', file=sys.stderr)
    try:
        os.kill(pid, signal.SIGKILL)
    except OSError:
        pass
    if not done:
        print(f'REPRODUCED: wait(timeout=5) returned False after {dt:.1f} s for a target that returns bytes(5 MiB) at once (child blocked writing the result, parent only joins)')
        sys.stdout.flush()
        os._exit(1)
    print('NOT REPRODUCED')
    sys.stdout.flush()
    os._exit(0)


if __name__ == '__main__':
    main()
