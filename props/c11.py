"""C11 - the remote server survives every client failure."""
from workloads import lib, targets as T
from simos.sync import Thread as SimThread
from . import common as C

ID = 'C11'
LEVEL = 'fault_enumeration'
BUDGET = {'quick': 100, 'thorough': 900}
RULE = ('Cases = request type (worker, persistent worker, context create, duplicate context create, context delete, worker in context) x the byte stream a '
        'well-behaved client sends on the data connection (recorded in the same run) replayed by a scripted raw-socket client and '
        'cut at an enumerated offset with FIN or RST, or sent completely followed by a faulty control-channel handshake step '
        '(never connects, connects and closes, closes after the runtime info, vanishes while the worker runs) x optionally a '
        'healthy client with a running worker x sequences of 1-3 faulty clients x server started with / without close_on_none x schedule.')
ASSUMPTIONS = ['after each faulty client the server must be alive and serve a fresh RemoteWorker round trip and a fresh request of the faulty client\'s kind (same context) within 120 simulated s each']

REQS = ['worker', 'pworker', 'ctx-create', 'ctx-delete', 'worker-in-ctx', 'ctx-create-dup']
STEPS = ['never-ctrl', 'ctrl-connect-close', 'ctrl-connect-reset', 'close-after-info', 'vanish-running']


def mk_case(ctx, seq, concurrent, idx, policy=None, knobs=None, tag='', census=False, seed=None):
    return {'kind': seq[0]['req'] if seq else 'none', 'seq': seq, 'concurrent': concurrent, 'census': census,
            'policy': policy or {'kind': 'cooperative'}, 'knobs': knobs or {},
            # server configuration: with close_on_none (the default of run_server / the command line of the ssh helpers) a client
            # that sends a None header shuts the server down - none of the faulty clients below ever sends one
            'close_on_none': idx % 2 == 1,
            'sched_seed': seed if seed is not None else ctx.case_seed(tag, idx)}


class Run:
    def __init__(self, sim, case):
        self.sim = sim
        self.case = case
        self.V = []
        self.info = {'lens': {}}
        sim.tap = {}

    def viol(self, clause, man, detail=None):
        if not any(v['clause'] == clause and v['manifestation'] == man for v in self.V):
            self.V.append({'clause': clause, 'manifestation': man, 'detail': detail, 'kind': 'server'})

    # -------------------------------------------------------------- healthy requests (also record the client stream)
    def healthy(self, req, addr, ctxs):
        from pyworkers.remote import RemoteWorker
        from pyworkers.persistent_remote import PersistentRemoteWorker
        from pyworkers.remote_context import RemoteContext
        s = self.sim
        n0 = s.nconn
        ok = True
        if req == 'worker':
            w = RemoteWorker(T.t_return, kwargs={'v': 11}, host=addr)
            ok = w.wait(timeout=30) and w.result == 11
        elif req == 'pworker':
            w = PersistentRemoteWorker(T.p_square, host=addr)
            w.enqueue(3)
            ok = (w.next_result() == 9) and w.wait(timeout=30)
        elif req == 'ctx-create':
            self.ctx_seq = getattr(self, 'ctx_seq', 50) + 1
            c = RemoteContext(self.ctx_seq, host=addr, target=T.t_return, kwargs={'v': 'from-ctx'})
            ctxs.append(c)
        elif req == 'ctx-delete':
            self.ctx_seq = getattr(self, 'ctx_seq', 50) + 1
            c = RemoteContext(self.ctx_seq, host=addr, target=T.t_return, kwargs={'v': 'tmp'})
            n0 = s.nconn
            c.close()
        elif req == 'ctx-create-dup':
            # a second registration of an id that another (healthy) client owns: refused with ValueError
            if not ctxs:
                self.ctx_seq = getattr(self, 'ctx_seq', 50) + 1
                ctxs.append(RemoteContext(self.ctx_seq, host=addr, target=T.t_return, kwargs={'v': 'from-ctx'}))
            n0 = s.nconn
            try:
                RemoteContext(ctxs[-1].context_id, host=addr, target=T.t_return, kwargs={'v': 'intruder'})
                ok = False
            except ValueError:
                pass
            # the owner's context must still serve its workers
            w = RemoteWorker(None, context=ctxs[-1].context_id, host=addr)
            ok = ok and w.wait(timeout=30) and w.result == 'from-ctx'
        elif req == 'worker-in-ctx':
            if not ctxs:
                self.ctx_seq = getattr(self, 'ctx_seq', 50) + 1
                ctxs.append(RemoteContext(self.ctx_seq, host=addr, target=T.t_return, kwargs={'v': 'from-ctx'}))
            n0 = s.nconn
            w = RemoteWorker(None, context=ctxs[-1].context_id, host=addr)
            ok = w.wait(timeout=30) and w.result == 'from-ctx'
        data = bytes(s.tap.get(f'tcp{n0}.c2s', b''))
        return ok, data

    def roundtrip(self, addr, x):
        from pyworkers.remote import RemoteWorker
        w = RemoteWorker(T.t_return, kwargs={'v': x}, host=addr)
        w.wait(timeout=30)
        return w.result

    # -------------------------------------------------------------- faulty scripted client
    def faulty(self, f, addr, data):
        from pyworkers.remote import recv_msg, set_linger, ConnectionClosedError
        from simos.sockshim import SocketFacade
        S = SocketFacade()
        s = self.sim
        cs = S.socket(S.AF_INET, S.SOCK_STREAM)
        cs.connect(addr)
        step = f.get('step')
        if step is None:
            k = min(f['cut'], len(data))
            if f.get('end') == 'rst':
                set_linger(cs, True, 0)
            if k:
                cs.sendall(data[:k])
            if f.get('pause'):
                s.sleep(f['pause'])
            cs.close()
            s.fault('peer-' + f.get('end', 'fin') + '@k')
            return
        cs.sendall(data)
        s.fault('handshake:' + step)
        try:
            ctrl_addr = recv_msg(cs)
        except ConnectionClosedError:
            cs.close()
            return
        if step == 'never-ctrl':
            s.sleep(0.5)
            cs.close()
            return
        ct = S.socket(S.AF_INET, S.SOCK_STREAM)
        ct.connect(tuple(ctrl_addr))
        if step == 'ctrl-connect-close':
            ct.close()
            s.sleep(0.2)
            cs.close()
            return
        if step == 'ctrl-connect-reset':
            # the control connection is reset before the server gets to accept() it
            set_linger(ct, True, 0)
            ct.close()
            s.sleep(0.2)
            cs.close()
            return
        try:
            info = recv_msg(ct)
        except ConnectionClosedError:
            info = None
        if step == 'close-after-info':
            ct.close()
            cs.close()
            return
        # vanish while the worker runs: abort both connections
        s.sleep(0.05)
        set_linger(ct, True, 0)
        set_linger(cs, True, 0)
        ct.close()
        cs.close()

    def root(self):
        s, c = self.sim, self.case
        srv = lib.start_server(close_on_none=bool(c.get('close_on_none')))
        addr = srv.addr
        ctxs = []
        conc = None
        if c['concurrent']:
            from pyworkers.remote import RemoteWorker
            conc = RemoteWorker(T.t_loop, kwargs={'n': 60, 'd': 0.02, 'v': 'healthy-done'}, host=addr)
        for i, f in enumerate(c['seq']):
            r = lib.call_with_deadline(self.healthy, 300.0, f['req'], addr, ctxs)
            if r[0] != 'ok' or not r[1][0]:
                self.info['healthy-failed'] = [f['req'], r[0], lib.safe_repr(r[1])]
                s.probe('healthy-request-failed')
                return
            data = r[1][1]
            if f['req'] in ('vanish',):
                pass
            self.info['lens'][f['req']] = len(data)
            if c.get('census'):
                continue
            if f.get('step') == 'vanish-running':
                # a long-running worker for this client
                pass
            r = lib.call_with_deadline(self.faulty, 300.0, f, addr, data)
            if r[0] != 'ok':
                self.info.setdefault('faulty-client', []).append([r[0], type(r[1]).__name__ if r[1] is not None else None])
            s.sleep(0.3)
            tag = f'{f["req"]}:' + (f'step={f["step"]}' if f.get('step') else f'cut@{self.where(f, data)}:{f.get("end")}')
            p = s.procs.get(srv.pid)
            if p is None or not p.alive:
                exc = [e for e in s.truth if e['kind'] == 'child-main-exception' and e.get('pid_') == srv.pid]
                phase = ('step=' + f['step']) if f.get('step') else self.where(f, data)
                self.viol('server-survives', f'server-died:{exc[0]["exc"] + "@" + str(exc[0].get("where")) if exc else "?"}:'
                          f'{"context" if f["req"].startswith("ctx") else "worker"}-request:{phase}', {'tag': tag, 'exc': exc[:1]})
                return
            r = lib.call_with_deadline(self.roundtrip, 120.0, addr, 1000 + i)
            if r[0] != 'ok' or r[1] != 1000 + i:
                bl = [b for b in s.blocked_report() if b['proc'] == p.name and b['thread'] == p.main.name]
                fr = bl[0]['frames'][0].split(':')[0] if bl and bl[0]['frames'] else '?'
                self.viol('serves-new-clients', f'fresh-client-not-served:{r[0]}:server-main-blocked@{fr}',
                          {'tag': tag, 'result': lib.safe_repr(r[1]), 'server_main': bl[:1]})
                return
            # ... and a new well-behaved client of the very kind the faulty one was (same context for workers in a context)
            r = lib.call_with_deadline(self.healthy, 120.0, f['req'], addr, ctxs)
            if r[0] != 'ok' or not r[1][0]:
                self.viol('serves-new-clients', f'fresh-{f["req"]}-client-not-served:{r[0]}',
                          {'tag': tag, 'result': lib.safe_repr(r[1]), 'blocked': s.blocked_report()[:4] if r[0] == 'hung' else None})
                return
        if conc is not None:
            r = lib.call_with_deadline(conc.wait, 300.0, timeout=60)
            res = lib.read4(conc)
            ro = res.pop('_result_obj', None)
            if not (r[0] == 'ok' and r[1] is True and res.get('has_error') is False and ro == 'healthy-done'):
                self.viol('other-clients-undisturbed', 'healthy-concurrent-worker-disturbed', res)

    def where(self, f, data):
        k = min(f['cut'], len(data))
        if k == 0:
            return 'start'
        if k >= len(data):
            return 'end'
        # position class: header message (first length-prefixed message) or payload
        import struct
        if len(data) >= 4:
            h = struct.unpack('!I', data[:4])[0] + 4
            if k < 4:
                return 'header-length'
            if k < h:
                return 'header'
            if k < h + 4:
                return 'payload-length'
        return 'payload'

    def obs_summary(self):
        return {'info': self.info}

    def judge(self, outcome):
        if outcome in ('hang', 'time-cap', 'spin'):
            return [{'clause': 'serves-new-clients', 'manifestation': f'workload-{outcome}', 'detail': (self.sim.outcome_info or {})}]
        return self.V


def make_run(sim, case):
    return Run(sim, case)


def plan(ctx):
    rng = ctx.rng
    quick = ctx.tier != 'thorough'
    from harness.check import draw_env
    # census: stream length per request type (same seed => same pids / ports => same stream in the directed runs)
    base_seed = ctx.case_seed('base')
    cen = [mk_case(ctx, [{'req': r}], False, i, census=True, seed=base_seed) for i, r in enumerate(REQS)]
    res = ctx.run(cen, 'census')
    lens = {}
    for c, r in zip(cen, res):
        lens[c['seq'][0]['req']] = (((r.get('obs') or {}).get('info') or {}).get('lens') or {}).get(c['seq'][0]['req'], 0)
    ctx.extra['recorded_stream_lengths'] = lens
    cases = []
    npts = 0
    for req in REQS:
        L = lens.get(req, 0)
        stride = 8 if quick else 1
        offs = sorted(set(list(range(0, min(L, 40))) + list(range(0, L + 1, stride)) + [L]))
        npts += len(offs)
        for k in offs:
            for end in ('fin', 'rst'):
                cases.append(mk_case(ctx, [{'req': req, 'cut': k, 'end': end}], rng.random() < 0.3, len(cases), seed=base_seed,
                                     policy={'kind': 'cooperative'}, tag='enum'))
        if req in ('worker', 'pworker', 'worker-in-ctx'):
            for st in STEPS:
                for conc in (False, True):
                    cases.append(mk_case(ctx, [{'req': req, 'step': st}], conc, len(cases), seed=base_seed, tag='steps'))
    ctx.exhaustive_info = {'space': 'cut offsets of the recorded client stream per request type x {FIN, RST} + control-handshake steps',
                           'offsets': npts, 'stride': 8 if quick else 1, 'complete': not quick}
    ctx.run(cases, 'enumerated-cuts-and-handshake-steps')
    # sequences of faulty clients under random schedules
    n = 500 if quick else 12000
    rc = []
    for i in range(n):
        seq = []
        for _ in range(rng.randrange(1, 4)):
            req = rng.choice(REQS)
            L = max(lens.get(req, 50), 10)
            if req in ('worker', 'pworker', 'worker-in-ctx') and rng.random() < 0.3:
                seq.append({'req': req, 'step': rng.choice(STEPS)})
            else:
                seq.append({'req': req, 'cut': rng.choice([rng.randrange(0, L + 1), rng.randrange(0, 30), L]), 'end': rng.choice(['fin', 'rst']),
                            'pause': rng.choice([0, 0, 0.2])})
        pol, knobs = draw_env(rng, tcp=True)
        rc.append(mk_case(ctx, seq, rng.random() < 0.4, i, policy=pol, knobs=knobs, tag='random'))
    ctx.run(rc, 'random-sequences')


def smoke_cases(ctx, n):
    from harness.check import draw_env
    rng = ctx.rng
    out = []
    for i in range(n):
        pol, knobs = draw_env(rng, tcp=True)
        out.append(mk_case(ctx, [{'req': rng.choice(REQS), 'cut': rng.randrange(0, 60), 'end': rng.choice(['fin', 'rst'])}],
                           rng.random() < 0.4, i, policy=pol, knobs=knobs, tag='smoke'))
    return out


def shrink(case):
    c = dict(case)
    seq = c['seq']
    if len(seq) > 1:
        for k in range(len(seq)):
            yield dict(c, seq=seq[:k] + seq[k + 1:])
    if c.get('concurrent'):
        yield dict(c, concurrent=False)
    if c.get('knobs'):
        yield dict(c, knobs={})
