"""C20 - creating a worker returns a usable worker or raises - it never hangs."""
import signal
import struct
from workloads import lib, targets as T
from simos.sync import Thread as SimThread
from . import common as C

ID = 'C20'
LEVEL = 'fault_enumeration'
BUDGET = {'quick': 100, 'thorough': 900}
RULE = ('(a) scripted server peer: the two server-to-client handshake messages (control address on the data connection, runtime '
        'info on the control connection) cut at an enumerated byte offset with FIN or RST, control connection refused; (b) real '
        'server: unknown context id, server SIGKILLed / SIGTERMed at an enumerated line of its handling of this client; (c) process '
        'kind: child killed at an enumerated line before it reported its identity, spawn failure; thread kind: the newborn thread failing at each delivery point before it reported; one-shot and persistent classes; '
        '(d) the server process worker (spawn_server): its child killed at every line of its start-up; '
        'plus seeded random schedules.')
ASSUMPTIONS = ['hang bound: the constructor must return or raise within 600 simulated seconds (it has no timeout parameter)']


def mk_case(ctx, kind, mode, idx, policy=None, knobs=None, tag='', **kw):
    c = {'kind': kind, 'mode': mode, 'policy': policy or {'kind': 'cooperative'}, 'knobs': knobs or {},
         'sched_seed': ctx.case_seed(tag, kind, mode, idx)}
    c.update(kw)
    return c


class Capture:
    def __init__(self):
        self.data = bytearray()

    def sendall(self, b):
        self.data += b


def raw_read_msg(sock):
    hdr = b''
    while len(hdr) < 4:
        b = sock.recv(4 - len(hdr))
        if not b:
            return None
        hdr += b
    n = struct.unpack('!I', hdr)[0]
    body = b''
    while len(body) < n:
        b = sock.recv(n - len(body))
        if not b:
            return None
        body += b
    return body


class Run:
    def __init__(self, sim, case):
        self.sim = sim
        self.case = case
        self.V = []
        self.info = {}
        if case.get('census'):
            C.install_census(sim, extra_roles=('child-main:ProcessWorker._run',))
        C.install_fault(sim, case.get('fault'))
        if case['mode'] == 'thread-child-crash':
            # the newborn thread of a thread worker fails at the k-th delivery point of its start-up code, before it has reported to
            # the constructor: e.g. the WorkerTerminatedError of a terminate() aimed at a *finished* thread worker whose recycled
            # thread identifier the new thread has inherited (PyThreadState_SetAsyncExc goes by identifier)
            def crash(sim_, t, code=None, line=None):
                sim_.fault('exception-in-thread-child-before-it-reported')
                from pyworkers.worker import WorkerTerminatedError
                t.pending_exc = WorkerTerminatedError
            sim.add_trigger(at='dp', qualname='ThreadWorker._run', occurrence=case.get('k', 1), action=crash, label='thread-child-crash',
                            pred=lambda t: True)
        if case['mode'] == 'spawn-fails':
            st = {'n': 0}

            def hook(sim_, me, proc):
                st['n'] += 1
                if st['n'] == case.get('spawn_index', 1):
                    sim_.fault('spawn-fails')
                    raise OSError(11, 'Resource temporarily unavailable')
            sim.knobs['_spawn_hook'] = hook

    def viol(self, clause, man, detail=None):
        if not any(v['clause'] == clause and v['manifestation'] == man for v in self.V):
            self.V.append({'clause': clause, 'manifestation': man, 'detail': detail})

    # ------------------------------------------------------------------ scripted server
    def scripted_server(self, lst, ctrl_lst):
        from pyworkers.remote import send_msg, set_linger
        s, c = self.sim, self.case
        try:
            cli, _ = lst.accept()
        except Exception:
            return
        raw_read_msg(cli)
        raw_read_msg(cli)
        cap = Capture()
        send_msg(cap, ctrl_lst.getsockname() if c.get('ctrl') != 'refused' else ('127.0.0.1', 7))
        m1 = bytes(cap.data)
        cap2 = Capture()
        send_msg(cap2, ('simhost', 4242, 4243, 4244))
        m2 = bytes(cap2.data)
        self.info['lens'] = [len(m1), len(m2)]
        cut = c.get('cut')
        end = c.get('end', 'fin')

        def finish(sock):
            if sock is cli and c.get('keep_data_open'):
                # the peer stays up and keeps the data connection open although the control handshake has failed
                s.sleep(5000.0)
            if end == 'rst':
                set_linger(sock, True, 0)
            if c.get('pause'):
                s.sleep(c['pause'])
            sock.close()
        if c.get('stage') == 1:
            k = min(cut, len(m1))
            if k:
                cli.sendall(m1[:k])
            finish(cli)
            ctrl_lst.close()       # a dying server takes its control listener with it
            return
        cli.sendall(m1)
        if c.get('ctrl') == 'refused':
            s.sleep(5000.0 if c.get('keep_data_open') else 1.0)
            cli.close()
            return
        try:
            ctrl_lst.settimeout(5.0)
            ct, _ = ctrl_lst.accept()
        except Exception:
            cli.close()
            return
        k = min(cut if cut is not None else len(m2), len(m2))
        if k:
            ct.sendall(m2[:k])
        ctrl_lst.close()
        if c.get('stage') == 2:
            finish(ct)
            s.sleep(0.1)
            finish(cli)
            return
        # complete handshake: behave like a dead server afterwards
        s.sleep(0.5)
        ct.close()
        cli.close()

    def root(self):
        from simos.sockshim import SocketFacade
        s, c = self.sim, self.case
        kind, mode = c['kind'], c['mode']
        if kind == 'server':
            return self.root_server()
        host = None
        srv = None
        before = set(p.pid for p in s.procs.values() if p.alive)
        kw = {}
        if mode == 'scripted':
            S = SocketFacade()
            lst = S.socket(S.AF_INET, S.SOCK_STREAM)
            lst.bind(('127.0.0.1', 0))
            lst.listen()
            cl = S.socket(S.AF_INET, S.SOCK_STREAM)
            cl.bind(('127.0.0.1', 0))
            cl.listen()
            host = lst.getsockname()
            th = SimThread(target=self.scripted_server, args=(lst, cl))
            th.start()
        elif lib.is_remote(kind):
            srv = lib.start_server()
            host = srv.addr
            before = set(p.pid for p in s.procs.values() if p.alive)
            if mode == 'unknown-ctx':
                kw['context'] = 987
            if mode == 'connect-refused':
                host = ('127.0.0.1', 5)
        s.census_mark = 1
        fn = 'p_square' if lib.is_persistent(kind) else 't_loop'
        targ = None if mode == 'unknown-ctx' else fn
        kwargs = {} if lib.is_persistent(kind) else {'n': 5, 'd': 0.01}
        s.tlog('ctor-call')
        r = lib.call_with_deadline(lib.make_worker, 600.0, kind, targ, kwargs=kwargs if targ else None, host=host, probe=False, **kw)
        s.tlog('ctor-done', status=r[0])
        s.census_mark = 2
        self.info['ctor'] = [r[0], type(r[1]).__name__ if r[0] == 'exc' else None]
        tag = mode + ((':stage%s' % c.get('stage')) if c.get('stage') else '') + ((':' + c['ctrl']) if c.get('ctrl') else '')
        if r[0] == 'hung':
            bl = [b for b in s.blocked_report() if b['role'].startswith('call_with_deadline')]
            fr = bl[-1]['frames'][0].split(':')[0] if bl and bl[-1]['frames'] else '?'
            self.viol('constructor-returns', f'constructor-hangs:{tag}:blocked@{fr}', s.blocked_report()[:6])
            return
        s.sleep(1.5)
        if r[0] == 'exc':
            # no child process may be left behind (the server itself excluded)
            left = [p for p in s.procs.values() if p.alive and p.pid not in before and getattr(p, 'tag', None) != 'server']
            if left and not (srv is not None and not s.procs[srv.pid].alive):
                self.viol('failed-construction-leaves-nothing', f'child-left-behind:{tag}', [p.name for p in left])
            return
        w = r[1]
        # returned: its id must describe a child that was really started
        if lib.base_kind(kind) == 'thread':
            return
        if mode == 'scripted':
            return       # the scripted peer invents the identity
        wid = w.id
        p = s.procs.get(w.pid)
        me = s.root_proc
        if p is None or p is me:
            started = [q for q in s.procs.values() if q.pid not in before and getattr(q, 'tag', None) != 'server']
            self.viol('id-names-started-child', f'id-is-not-a-started-child:{tag}:{"parent-pid" if p is me else "unknown-pid"}',
                      {'id': list(map(str, wid)), 'started': [q.name for q in started]})

    def root_server(self):
        """the server process is itself a process worker (spawn_server -> RemoteServerProcess): its construction must return or
        raise whatever happens to the child while it starts"""
        s, c = self.sim, self.case
        s.tlog('ctor-call')
        r = lib.call_with_deadline(lib.start_server, 600.0)
        s.tlog('ctor-done', status=r[0])
        self.info['ctor'] = [r[0], type(r[1]).__name__ if r[0] == 'exc' else None]
        ch = [t for t in s.threads if t.role == 'child-main:ProcessWorker._run']
        self.info['child_lines'] = ch[0].nline if ch else 0
        self.info['child_name'] = ch[0].name if ch else None
        if r[0] == 'hung':
            bl = [b for b in s.blocked_report() if b['role'].startswith('call_with_deadline')]
            fr = bl[-1]['frames'][0].split(':')[0] if bl and bl[-1]['frames'] else '?'
            self.viol('constructor-returns', f'constructor-hangs:server-process:blocked@{fr}', s.blocked_report()[:6])
            return
        if r[0] == 'ok':
            srv = r[1]
            p = s.procs.get(srv.pid)
            if p is not None and p.alive and not c.get('fault'):
                # untouched server: it must be usable
                rr = lib.call_with_deadline(lambda: lib.make_worker('remote', 't_return', kwargs={'v': 5}, host=srv.addr, probe=False), 300.0)
                if rr[0] != 'ok':
                    self.viol('constructor-returns', f'fresh-server-unusable:{rr[0]}')

    def obs_summary(self):
        d = {'info': self.info}
        if self.case.get('census'):
            pts = C.census_points(self.sim.census, after_mark=1)
            d['census'] = {k: [p for p in v] for k, v in pts.items()}
            d['roles'] = {t.name: [t.role, t.proc.name, getattr(t.proc, 'tag', None)] for t in self.sim.threads}
            d['marks'] = {k: [e[3] for e in v] for k, v in self.sim.census.items()}
        return d

    def judge(self, outcome):
        if outcome == 'caller-killed':
            k = C.caller_killed_by_other(self.sim)
            if k is not None:
                return [{'clause': 'constructor-returns', 'manifestation': f'calling-process-killed-by-signal-from:{k["tag"] or k["proc"]}:{k["role"]}',
                         'detail': k, 'kind': 'server'}]
        if outcome in ('hang', 'time-cap', 'spin'):
            return [{'clause': 'constructor-returns', 'manifestation': f'workload-{outcome}', 'detail': self.sim.outcome_info}]
        return self.V


def make_run(sim, case):
    return Run(sim, case)


def plan(ctx):
    rng = ctx.rng
    quick = ctx.tier != 'thorough'
    from harness.check import draw_env
    cases = []
    # (a) scripted server: cut offsets of both handshake messages
    stride = 4 if quick else 1
    for kind in ('remote', 'premote'):
        for stage, L in ((1, 60), (2, 60)):
            for k in sorted(set(list(range(0, 12)) + list(range(0, L, stride)) + [L])):
                for end in ('fin', 'rst'):
                    cases.append(mk_case(ctx, kind, 'scripted', len(cases), stage=stage, cut=k, end=end, tag='scripted'))
        cases.append(mk_case(ctx, kind, 'scripted', len(cases), ctrl='refused', tag='scripted'))
        # the same control-channel failures with a peer that keeps the *data* connection open for a long time
        cases.append(mk_case(ctx, kind, 'scripted', len(cases), ctrl='refused', keep_data_open=True, tag='scripted'))
        for k in (0, 1, 3, 4, 5, 20, 44):
            for end in ('fin', 'rst'):
                cases.append(mk_case(ctx, kind, 'scripted', len(cases), stage=2, cut=k, end=end, keep_data_open=True, tag='scripted'))
        for mode in ('unknown-ctx', 'connect-refused'):
            cases.append(mk_case(ctx, kind, mode, len(cases), tag='modes'))
    for kind in ('thread', 'pthread'):
        for k in range(1, 9):
            cases.append(mk_case(ctx, kind, 'thread-child-crash', len(cases), k=k, tag='thread-child-crash'))
    for kind in ('process', 'pprocess', 'remote', 'premote'):
        for si in (1, 2):
            cases.append(mk_case(ctx, kind, 'spawn-fails', len(cases), spawn_index=si if lib.is_remote(kind) else 1, tag='spawn'))
    ctx.run(cases, 'scripted-peer-and-discrete-failures')
    # (a2) the server process worker itself: its child killed at every line it executes before the constructor returns
    r0 = ctx.run([mk_case(ctx, 'server', 'real', 0, tag='server-census')], 'server-census')
    inf0 = ((r0[0].get('obs') or {}).get('info') or {})
    nl = int(inf0.get('child_lines') or 120)
    cname = inf0.get('child_name') or 'm.0.0'
    sc = []
    for k in range(1, nl + 8, 3 if quick else 1):
        for fk in ('sigkill', 'sigterm'):
            sc.append(mk_case(ctx, 'server', 'kill-during-ctor', len(sc), tag='server-kill',
                              fault={'kind': fk, 'thread': cname, 'nline': k}, policy={'kind': 'directed', 'p_stay': rng.choice([0.0, 0.5, 0.9])}))
    ctx.run(sc, 'server-process-killed-at-each-line-of-its-start-up')
    # (b)/(c) census: lines of the server main thread while it handles the client / of the child before it reports
    cen = []
    for kind in ('process', 'pprocess', 'remote', 'premote'):
        c = mk_case(ctx, kind, 'real', 0, tag='census')
        c['census'] = True
        cen.append(c)
    res = ctx.run(cen, 'census')
    kc = []
    npts = 0
    for c, r in zip(cen, res):
        o = r.get('obs') or {}
        roles = o.get('roles') or {}
        for tname, pts in sorted((o.get('census') or {}).items()):
            role, pname, tag = roles.get(tname, [None, None, None])
            is_server_main = (tag == 'server' and role == 'child-main:ProcessWorker._run')
            marks = (o.get('marks') or {}).get(tname, [])
            # only points reached while the constructor was running (mark == 1)
            sel = [p for p, m in zip(pts, [m for m in marks if m >= 1]) if m == 1]
            uniq, seen = [], set()
            for qn, ln, occ, idx, pk in sel:
                if occ > 2:
                    continue
                k = (qn, ln, occ)
                if k not in seen:
                    seen.add(k)
                    uniq.append(k)
            if lib.is_remote(c['kind']) and not (is_server_main or role == 'child-main:RemoteWorker._run_backend'):
                continue
            npts += len(uniq)
            if quick:
                rng.shuffle(uniq)
                uniq = uniq[:35]
            for (qn, ln, occ) in uniq:
                for fk in ('sigkill', 'sigterm'):
                    kc.append(mk_case(ctx, c['kind'], 'kill-during-ctor', len(kc), tag='kill',
                                      fault={'kind': fk, 'thread': tname, 'qualname': qn, 'line': ln, 'occ': occ},
                                      policy={'kind': 'directed', 'p_stay': rng.choice([0.0, 0.5, 0.9])}))
    ctx.exhaustive_info = {'space': 'handshake cut offsets x {FIN, RST} (scripted server); lines of the server / child reached during the '
                                    'constructor x {SIGKILL, SIGTERM}', 'kill_points': npts, 'cases': len(cases) + len(kc), 'complete': not quick}
    ctx.run(kc, 'kill-at-enumerated-lines-during-constructor')
    n = 500 if quick else 10000
    rc = []
    for i in range(n):
        kind = rng.choice(['process', 'pprocess', 'remote', 'premote', 'thread', 'pthread'])
        pol, knobs = draw_env(rng, tcp=lib.is_remote(kind))
        fault = None
        if lib.base_kind(kind) != 'thread' and rng.random() < 0.7:
            fault = {'kind': rng.choice(['sigkill', 'sigterm']), 'thread': None, 'nline': rng.randrange(1, 120)}
            if lib.is_remote(kind) and rng.random() < 0.5:
                fault = {'kind': 'sigkill', 'role': 'child-main:ProcessWorker._run', 'any_thread': True, 'nline': rng.randrange(60, 400), 'target': 'server'}
        rc.append(mk_case(ctx, kind, 'real', i, policy=pol, knobs=knobs, fault=fault, tag='random'))
    ctx.run(rc, 'random')


def smoke_cases(ctx, n):
    from harness.check import draw_env
    rng = ctx.rng
    out = []
    for i in range(n):
        kind = rng.choice(['process', 'pprocess', 'remote', 'premote'])
        pol, knobs = draw_env(rng, tcp=lib.is_remote(kind))
        out.append(mk_case(ctx, kind, 'real', i, policy=pol, knobs=knobs, tag='smoke',
                           fault={'kind': 'sigkill', 'thread': None, 'nline': rng.randrange(1, 120)}))
    return out
