"""C01 - a dead worker always has one definite, consistent and stable outcome."""
import random
from workloads import lib, targets as T
from workloads.probes import KINDS
from . import common as C

ID = 'C01'
LEVEL = 'fault_enumeration'
BUDGET = {'quick': 100, 'thorough': 900}
RULE = ('Cases = worker class x target flavour x ending (natural / terminate, SIGKILL, SIGTERM at an enumerated line of the '
        'child run loop / SIGKILL while blocked writing a result larger than the pipe) x observation method x schedule.')
ASSUMPTIONS = ['landing granularity is the line; landings CPython could not produce exactly there are counted separately']

ONE_SHOT_TARGETS = [
    ('ret-plain', 't_return', {'v': 42}),
    ('ret-nested', 't_return', {'v': [1, {'a': [2, 3]}, 'x']}),
    ('ret-none', 't_return', {'v': None}),
    ('ret-falsy', 't_return', {'v': 0}),
    ('ret-big', 't_return', {'v': {'$': 'bytes', 'n': 150000}}),
    ('ret-origin-only', 't_return', {'v': {'$': 'origin-only', 'payload': 5}}),
    ('raise-exc', 't_raise', {'name': 'ValueError', 'args': ['boom', 3]}),
    ('raise-needsargs', 't_raise', {'name': 'NeedsArgsError', 'args': [1, 2]}),
    ('raise-origin', 't_raise', {'name': 'OriginOnlyError', 'args': ['x']}),
    ('raise-kbint', 't_raise', {'name': 'KeyboardInterrupt', 'args': []}),
    ('raise-sysexit', 't_raise', {'name': 'SystemExit', 'args': [3]}),
    ('raise-mybase', 't_raise', {'name': 'MyBaseException', 'args': ['b']}),
    ('loop', 't_loop', {'n': 30, 'd': 0.01, 'v': 'loop-done'}),
    ('loop-finally', 't_loop_finally', {'n': 30, 'd': 0.01, 'v': 'lf-done'}),
    ('pyloop', 't_pyloop', {'n': 25, 'v': 'py-done'}),
]
PERSISTENT_TARGETS = [
    ('p-square', 'p_square', {}, [1, 2, 3]),
    ('p-none', 'p_square', {}, []),
    ('p-poison', 'p_poison', {'poison': [2]}, [1, 2, 3]),
    ('p-slow', 'p_slow', {'d': 0.05}, [1, 2]),
    ('p-big', 'p_poison', {'big': 90000}, [1, 2]),
    ('p-origin-only', 'p_poison', {'origin_only': [2]}, [1, 2, 3]),
]
UNREBUILDABLE = {'NeedsArgsError', 'OriginOnlyError'}
BASE_ONLY = {'KeyboardInterrupt', 'SystemExit', 'MyBaseException'}


def targets_for(kind):
    return PERSISTENT_TARGETS if lib.is_persistent(kind) else ONE_SHOT_TARGETS


def mk_case(ctx, kind, flavour, ending, observe, idx, fault=None, policy=None, knobs=None, nreads=3, tag=''):
    tl = targets_for(kind)
    ent = next(e for e in tl if e[0] == flavour)
    case = {'kind': kind, 'flavour': flavour, 'fn': ent[1], 'kwargs': ent[2], 'items': ent[3] if len(ent) > 3 else None,
            'ending': ending, 'observe': observe, 'nreads': nreads, 'fault': fault, 'fault_kind': (fault or {}).get('kind', ending),
            'policy': policy or {'kind': 'random', 'p_stay': 0.5}, 'knobs': knobs or {},
            'sched_seed': ctx.case_seed(tag, kind, flavour, ending, observe, idx)}
    return case


# ------------------------------------------------------------------------------------------------- run
class Run:
    def __init__(self, sim, case):
        self.sim = sim
        self.case = case
        self.obs = []
        self.info = {}
        if case.get('census'):
            C.install_census(sim)
        C.install_fault(sim, case.get('fault'))

    def root(self):
        s, c = self.sim, self.case
        kind = c['kind']
        host = None
        if lib.is_remote(kind):
            srv = lib.start_server()
            host = srv.addr
        kw = dict(c['kwargs'])
        try:
            w = lib.make_worker(kind, c['fn'], kwargs=kw, host=host)
        except BaseException as e:   # noqa
            self.info['ctor-raised'] = type(e).__name__
            return
        s.census_mark = 1
        s.tlog('ctor-returned')
        self.info['wid'] = list(w.id)
        child = lib.child_proc_of(w) if not lib.base_kind(kind) == 'thread' else None
        self.info['child'] = child.name if child else None
        if lib.is_persistent(kind):
            for x in c['items'] or []:
                try:
                    w.enqueue(x)
                except BaseException as e:   # noqa
                    self.info.setdefault('enqueue-raised', []).append(type(e).__name__)
        if c['ending'] == 'terminate':
            s.gate_wait('fault', timeout=20.0)
            st, v, el = lib.timed(w.terminate, timeout=c.get('term_timeout', 2), force=False)
            self.info['terminate'] = [st, lib.safe_repr(v)]
        elif c['ending'] in ('sigkill', 'sigterm', 'kill-on-write'):
            s.gate_wait('fault', timeout=20.0)
        elif c['ending'] == 'net-timeout':
            # the TCP connections to the server time out (peer host lost, no FIN / RST)
            s.sleep(c.get('net_delay', 0.05))
            import errno
            self.info['net-broken'] = lib.break_connections(w, getattr(errno, c.get('net_errno', 'ETIMEDOUT')))
            s.tlog('net-fault')
        # observe death
        dead = False
        how = c['observe']
        thread_kind = lib.base_kind(kind) == 'thread'
        if how == 'wait':
            st, v, el = lib.timed(w.wait, timeout=8)
            dead = (st == 'ok' and v is True)
            self.info['observe'] = [st, lib.safe_repr(v)]
        elif how == 'wait-poll':
            st, v = 'ok', False
            for _ in range(3000):
                st, v, el = lib.timed(w.wait, timeout=c.get('poll_timeout', 0.01))
                if st != 'ok' or v is True:
                    break
                s.sleep(0.002)
            dead = (st == 'ok' and v is True)
            self.info['observe'] = [st, lib.safe_repr(v)]
        elif how == 'terminate':
            kwt = {'timeout': 3}
            if thread_kind:
                kwt['force'] = False
            st, v, el = lib.timed(w.terminate, **kwt)
            dead = (st == 'ok' and v is True)
            self.info['observe'] = [st, lib.safe_repr(v)]
        else:
            for _ in range(400):
                st, v, el = lib.timed(w.is_alive)
                if st != 'ok' or v is False:
                    break
                s.sleep(0.02)
            dead = (st == 'ok' and v is False)
            self.info['observe'] = [st, lib.safe_repr(v)]
        if not dead and not thread_kind:
            st, v, el = lib.timed(w.terminate, timeout=1, force=True)
            dead = (st == 'ok' and v is True)
            self.info['escalate'] = [st, lib.safe_repr(v)]
        self.info['dead'] = dead
        if not dead:
            s.probe('never-observed-dead')
            return
        exp = None
        if not lib.is_persistent(kind):
            if c['fn'] == 't_return':
                exp = T.make_value(kw.get('v'))
            else:
                exp = kw.get('v')
        for i in range(c['nreads']):
            if i % 2 == 1:
                # every other read is made by a thread started after the worker's death (a supervisor thread, a pool's clean-up
                # thread): it may have been given the recycled thread identifier of the dead worker thread
                r = lib.call_with_deadline(lib.read4, 600.0, w)
                rec = r[1] if r[0] == 'ok' else {a: {'RAISED': 'hung-or-failed', 'msg': r[0]} for a in ('is_alive', 'has_error', 'result', 'error')}
            else:
                rec = lib.read4(w)
            ro = rec.pop('_result_obj', None)
            if not lib.is_persistent(kind) and isinstance(rec.get('result'), dict) and 'none' in rec['result']:
                try:
                    rec['result']['eq_expected'] = bool(ro == exp)
                except Exception:
                    rec['result']['eq_expected'] = False
            if lib.is_persistent(kind) and isinstance(rec.get('result'), dict):
                rec['result']['value'] = ro if isinstance(ro, int) else None
            self.obs.append(rec)
            s.sleep(0.03 * (i + 1))

    def obs_summary(self):
        d = {'info': self.info, 'reads': self.obs[:2]}
        if self.case.get('census'):
            d['census'] = C.census_points(self.sim.census)
            d['census_dp'] = C.census_points(self.sim.census_dp)
        return d

    # ------------------------------------------------------------------------------------------------- oracle
    def judge(self, outcome):
        s, c = self.sim, self.case
        V = []
        if outcome in ('hang', 'time-cap'):
            # only a hang inside the accessor reads concerns this property (hangs of the constructor, wait() or
            # terminate() belong to C20 / C04)
            if self.info.get('dead'):
                V.append({'clause': 'accessor-returns', 'manifestation': 'accessor-blocked',
                          'detail': (s.outcome_info or {}).get('blocked')})
            else:
                s.probe('hang-before-observed-dead')
            return V
        if not self.obs:
            return V
        kind = c['kind']
        truth = s.truth
        left = [e for e in truth if e['kind'] == 'run-left']
        raised = [e['exc'] for e in left if e['how'] == 'raise']
        returned = [e for e in left if e['how'] == 'return']
        killed = bool(C.kills_seen(s)) or any(e['kind'] == 'net-fault' for e in truth)
        landed = C.landed_exc_types(s)
        cause = C.cause(s, raised, returned)
        unreb_result = (c['fn'] == 't_return' and isinstance(c['kwargs'].get('v'), dict) and c['kwargs']['v'].get('$') == 'origin-only'
                        and bool(returned)) or (bool(c['kwargs'].get('origin_only')) and len(returned) >= 2 and lib.base_kind(kind) != 'thread')
        first = self.obs[0]
        for i, rec in enumerate(self.obs):
            for acc in ('is_alive', 'has_error', 'result', 'error'):
                v = rec.get(acc)
                if isinstance(v, dict) and 'RAISED' in v:
                    V.append({'clause': 'accessor-never-raises', 'manifestation': f'raises:{v["RAISED"]}', 'detail': rec, 'read': i})
            if any(isinstance(rec.get(a), dict) and 'RAISED' in rec[a] for a in ('is_alive', 'has_error', 'result', 'error')):
                continue
            if rec['is_alive'] is not False:
                V.append({'clause': 'stays-dead', 'manifestation': 'is_alive-true-after-dead', 'detail': rec, 'read': i})
            he = rec['has_error']
            if he is not True and he is not False:
                V.append({'clause': 'has_error-definite', 'manifestation': f'has_error={he!r}:{cause}', 'detail': rec, 'read': i})
                continue
            if he is False:
                if rec['error'] is not None:
                    V.append({'clause': 'shape', 'manifestation': 'ok-with-error', 'detail': rec})
                if lib.is_persistent(kind):
                    n_ok = len(returned)
                    if rec['result'].get('value') != n_ok:
                        V.append({'clause': 'result-value', 'manifestation': 'counter!=processed', 'detail': [rec, n_ok]})
                else:
                    if not returned:
                        V.append({'clause': 'result-value', 'manifestation': 'ok-but-target-did-not-return', 'detail': rec})
                    elif not rec['result'].get('eq_expected'):
                        V.append({'clause': 'result-value', 'manifestation': 'result!=direct-call', 'detail': rec})
            else:
                if not rec['result']['none']:
                    V.append({'clause': 'shape', 'manifestation': 'error-with-result', 'detail': rec})
                err = rec['error']
                if err is None:
                    ok = killed or unreb_result or bool(set(raised) & UNREBUILDABLE) or \
                        (lib.base_kind(kind) != 'thread' and bool(set(raised) & BASE_ONLY))
                    if not ok:
                        # a final report larger than 16 KiB is written by multiprocessing.Connection as two writes (see the known
                        # finding): name that input, so that the same landing with a small report stays a different signature
                        kv = (c.get('kwargs') or {}).get('v')
                        big = ':report>16KiB' if (isinstance(kv, dict) and kv.get('$') == 'bytes' and kv.get('n', 0) > 16384
                                                  and ':in-stdlib:Connection.' in cause) else ''
                        V.append({'clause': 'error-reported', 'manifestation': 'error-none:' + cause + big,
                                  'detail': {'rec': rec, 'raised': raised, 'landed': sorted(landed), 'landings': s.landings[-3:]}})
                else:
                    allowed = set(raised) | landed
                    if err['type'] not in allowed:
                        V.append({'clause': 'error-value', 'manifestation': f'unexpected-error-type:{err["type"]}',
                                  'detail': {'rec': rec, 'allowed': sorted(allowed)}})
            if i > 0:
                same = all(_norm(rec.get(a)) == _norm(first.get(a)) for a in ('is_alive', 'has_error', 'result', 'error'))
                if not same:
                    V.append({'clause': 'stable', 'manifestation': 'changed-between-reads', 'detail': [first, rec]})
        # de-duplicate per (clause, manifestation)
        seen, out = set(), []
        for v in V:
            k = (v['clause'], v['manifestation'])
            if k not in seen:
                seen.add(k)
                out.append(v)
        return out


def _norm(v):
    if isinstance(v, dict):
        return tuple(sorted((k, repr(x)) for k, x in v.items() if k != 'eq_expected'))
    return v


def make_run(sim, case):
    return Run(sim, case)


# ------------------------------------------------------------------------------------------------- plan
def plan(ctx):
    rng = ctx.rng
    quick = ctx.tier != 'thorough'
    from harness.check import draw_env
    # phase 1: census (fault-free cooperative) for each class x flavour; doubles as fault-free strict run
    census_cases = []
    for kind in KINDS:
        for fl in targets_for(kind):
            c = mk_case(ctx, kind, fl[0], 'natural', 'wait', 0, policy={'kind': 'cooperative'}, tag='census')
            c['census'] = True
            census_cases.append(c)
    res = ctx.run(census_cases, 'census')
    points = {}
    for c, r in zip(census_cases, res):
        o = r.get('obs') or {}
        cen, cdp = o.get('census') or {}, o.get('census_dp') or {}
        for tname in sorted(set(cen) | set(cdp)):
            points.setdefault((c['kind'], c['flavour']), []).append((tname, cen.get(tname, []), cdp.get(tname, [])))
    # phase 2: enumerated landing points
    enum_cases = []
    total_points = 0

    def uniq_points(pts):
        uniq, seen = [], set()
        for qn, ln, occ, idx, pk in pts:
            if occ > 2:
                continue
            k = (qn, ln, occ, pk)
            if k not in seen:
                seen.add(k)
                uniq.append(k)
        return uniq

    for (kind, fl), lst in sorted(points.items()):
        for tname, lpts, dpts in lst:
            fkinds = ['terminate'] if lib.base_kind(kind) == 'thread' else ['terminate', 'sigkill', 'sigterm']
            for fk in fkinds:
                uniq = uniq_points(dpts if fk == 'terminate' else lpts)
                total_points += len(uniq)
                sel = uniq
                if quick:
                    # stratified sample: every function of the child loop is hit, at most 2 points per function
                    byfn = {}
                    for k in uniq:
                        byfn.setdefault(k[0], []).append(k)
                    sel = []
                    for qn in sorted(byfn, key=str):
                        cand = byfn[qn]
                        rng.shuffle(cand)
                        sel.extend(cand[:2])
                for (qn, ln, occ, pk) in sel:
                    for rep in range(1 if quick else 2):
                        fault = {'kind': fk, 'thread': tname, 'qualname': qn, 'line': ln, 'occ': occ}
                        if fk == 'terminate':
                            fault['dpkind'] = pk
                        c = mk_case(ctx, kind, fl, fk, rng.choice(['wait', 'terminate', 'poll']), rep, fault=fault,
                                    policy={'kind': 'directed', 'p_stay': rng.choice([0.0, 0.5, 0.9])}, tag='enum')
                        enum_cases.append(c)
    if quick and len(enum_cases) > 2600:
        rng.shuffle(enum_cases)
        enum_cases = enum_cases[:2600]
    ctx.exhaustive_info = {'space': 'delivery points of asynchronous exceptions (terminate) and line boundaries (kill signals) (qualname, line, occurrence<=2) of the child run loop after the constructor returned, '
                                    'per worker class and target flavour, x fault kinds', 'points': total_points,
                           'cases': len(enum_cases), 'complete': not quick}
    ctx.run(enum_cases, 'enumerated-landing-points')
    # phase 3: kill while blocked writing a result larger than the pipe
    wcases = []
    for kind in ('process', 'pprocess', 'remote', 'premote'):
        fl = 'p-big' if lib.is_persistent(kind) else 'ret-big'
        for occ in (1, 2):
            for fk in ('sigkill', 'sigterm'):
                for cap in (4096, 65536):
                    c = mk_case(ctx, kind, fl, 'kill-on-write', rng.choice(['wait', 'poll']), occ,
                                fault={'kind': fk, 'on_block': 'pipe-write-full' if 'process' in kind else 'send-full', 'occ': occ},
                                policy={'kind': 'directed', 'p_stay': 0.5}, knobs={'pipe_cap': cap, 'tcp_cap': cap * 2}, tag='wblock')
                    wcases.append(c)
    for kind in ('remote', 'premote'):
        for fl in [e[0] for e in targets_for(kind)][:6]:
            for delay in (0.0, 0.02, 0.2):
                for en in ('ETIMEDOUT', 'EHOSTUNREACH'):
                    c = mk_case(ctx, kind, fl, 'net-timeout', rng.choice(['wait', 'poll', 'terminate']), len(wcases), policy={'kind': 'random', 'p_stay': 0.5}, tag='net')
                    c['net_delay'] = delay
                    c['net_errno'] = en
                    wcases.append(c)
    ctx.run(wcases, 'kill-while-blocked-writing+connection-timeouts')
    # phase 4: random schedules, random fault instants
    n = 1500 if quick else 30000
    rcases = []
    for i in range(n):
        kind = rng.choice(KINDS)
        fl = rng.choice(targets_for(kind))[0]
        pol, knobs = draw_env(rng, tcp=lib.is_remote(kind), adversarial_ok=True)
        ending = rng.choice(['natural', 'natural', 'terminate', 'sigkill', 'sigterm'])
        if lib.base_kind(kind) == 'thread' and ending in ('sigkill', 'sigterm'):
            ending = 'terminate'
        fault = None
        if lib.is_remote(kind) and rng.random() < 0.2:
            ending = 'net-timeout'
        if ending not in ('natural', 'net-timeout'):
            lst = points.get((kind, fl)) or []
            if lst:
                tname, lpts, dpts = lst[0]
                if ending == 'terminate' and dpts:
                    fault = {'kind': ending, 'thread': tname, 'ndp': dpts[rng.randrange(len(dpts))][3] + rng.randrange(0, 3)}
                elif ending != 'terminate' and lpts:
                    fault = {'kind': ending, 'thread': tname, 'nline': lpts[rng.randrange(len(lpts))][3] + rng.randrange(0, 3)}
            if fault is None:
                ending = 'natural'
        c = mk_case(ctx, kind, fl, ending, rng.choice(['wait', 'terminate', 'poll', 'wait-poll']), i, fault=fault, policy=pol, knobs=knobs,
                    nreads=rng.choice([2, 3, 4]), tag='random')
        c['poll_timeout'] = rng.choice([0, 0.001, 0.01, 0.05])
        if fault is None and lib.is_remote(kind) and rng.random() < 0.4:
            c['fault'] = {'kind': 'stall', 'role': 'RemoteWorker._run_frontend', 'any_thread': True,
                          'qualname': rng.choice(['RemoteWorker._fetch_results', 'PersistentRemoteWorker._fetch_results', 'recv_msg']),
                          'occ': rng.randrange(1, 6), 'duration': rng.choice([0.05, 0.5, 3.0])}
        if ending == 'net-timeout':
            c['net_delay'] = rng.choice([0.0, 0.01, 0.05, 0.3])
            c['net_errno'] = rng.choice(['ETIMEDOUT', 'ETIMEDOUT', 'EHOSTUNREACH'])
        rcases.append(c)
        if len(rcases) >= 2000:
            ctx.run(rcases, 'random')
            rcases = []
            if ctx.time_left() < 0:
                break
    if rcases:
        ctx.run(rcases, 'random')


def shrink(case):
    """simpler variants of a failing case"""
    c = dict(case)
    if c.get('nreads', 2) > 2:
        yield dict(c, nreads=2)
    if c.get('observe') != 'wait':
        yield dict(c, observe='wait')
    if c.get('knobs'):
        yield dict(c, knobs={})
    if c.get('items'):
        for k in range(len(c['items'])):
            yield dict(c, items=c['items'][:k] + c['items'][k + 1:])


def smoke_cases(ctx, n):
    from harness.check import draw_env
    rng = ctx.rng
    out = []
    for i in range(n):
        kind = rng.choice(KINDS)
        fl = rng.choice(targets_for(kind))[0]
        pol, knobs = draw_env(rng, tcp=lib.is_remote(kind), adversarial_ok=True)
        fault = None
        ending = 'natural'
        if lib.base_kind(kind) != 'thread' and rng.random() < 0.5:
            ending = rng.choice(['sigkill', 'sigterm'])
            fault = {'kind': ending, 'role': None, 'nline': rng.randrange(5, 120)}
        out.append(mk_case(ctx, kind, fl, ending, rng.choice(['wait', 'terminate', 'poll']), i, fault=fault, policy=pol,
                           knobs=knobs, tag='smoke'))
    return out
