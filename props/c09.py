"""C09 - no worker outlives its pool; a pool stays usable across runs and restarts."""
import signal
from workloads import lib, targets as T
from workloads import probes as P
from . import pools
from .pools import PoolRun, tb_tail

ID = 'C09'
LEVEL = 'exploration'
BUDGET = {'quick': 100, 'thorough': 900}
RULE = ('Cases = histories of <= 7 operations from {add_worker, attach, run(inputs), run with an input fatal to every worker, restart_workers, kill a worker, make a worker '
        'stuck in an uncooperative target, KeyboardInterrupt surfacing inside a run, failing registration (handle_new_worker raises), failing construction (connection '
        'refused, spawn fails), exception in the with-body, close, terminate} x mixed pools x close_timeout {0.05, 1} x force '
        '{None, True, False} x schedule.')
ASSUMPTIONS = ['responsive clock', 'thread workers stuck in an uncooperative target cannot be killed (excluded from the no-outliving clause)']

PKINDS = ['pthread', 'pprocess', 'premote']
POISON = 666
UNBUILDABLE = 667


def gen_case(ctx, rng, i, tag='random'):
    from harness.check import draw_env
    remote = rng.random() < 0.4
    kinds = PKINDS if remote else PKINDS[:2]
    ops = []
    for _ in range(rng.randrange(1, 4)):
        ops.append(['add', rng.choice(kinds), rng.random() < 0.6])
    uniq = [100]

    def inputs():
        n = rng.randrange(0, 5)
        out = list(range(uniq[0], uniq[0] + n))
        uniq[0] += n + 1
        return out
    for _ in range(rng.randrange(1, 6)):
        r = rng.random()
        if r < 0.30:
            ops.append(['run', inputs()])
        elif r < 0.36:
            # a run that cannot succeed: one input kills every worker that touches it (the pool retries it until all are dead)
            xs = inputs()
            xs.insert(rng.randrange(0, len(xs) + 1), POISON)
            ops.append(['run-poison', xs])
            if rng.random() < 0.6:
                # the documented way back: revive the workers and run again
                ops.append(['restart'])
                ops.append(['run', inputs()])
        elif r < 0.45:
            ops.append(['restart', rng.choice([None, None, False])])
        elif r < 0.55:
            ops.append(['kill', rng.randrange(0, 3)])
        elif r < 0.63:
            # (sometimes preceded by an input whose result the parent cannot rebuild: the result stream of a remote worker is given
            # up at that message while the child carries on with the next input)
            ops.append(['stuck', rng.randrange(0, 3), rng.random() < 0.4])
        elif r < 0.73:
            ops.append(['add', rng.choice(kinds), rng.random() < 0.6])
        elif r < 0.8:
            ops.append(['attach', rng.choice(kinds)])
        elif r < 0.88:
            ops.append(['add-fail-registration', rng.choice(kinds)])
        elif r < 0.94:
            ops.append(['add-fail-construction', rng.choice(['refused', 'spawn'])])
        else:
            ops.append(['run', inputs()])
    if rng.random() < 0.15:
        # Ctrl-C while a run is in progress: KeyboardInterrupt surfaces at some point of Pool.run (most often where it waits for
        # results), with inputs handed out, results unread and workers busy; the with-block is left through it / the caller closes
        n = rng.randrange(2, 7)
        xs = list(range(uniq[0], uniq[0] + n))
        uniq[0] += n + 1
        ops.append(['run-interrupted', xs, rng.randrange(1, 40),
                    rng.choice(['Pool.run', 'Pool.run', 'Pool.run', 'Pool.run.<locals>.try_enqueue', 'Pool.run.<locals>.handle_new_result',
                                'Pool._get_all_queues', 'Pool.run.<locals>.next_inputs'])])
    end = rng.choice(['close', 'terminate', 'with-ok', 'with-exc'])
    pol, knobs = draw_env(rng, tcp=remote)
    knobs['max_steps'] = 800000
    return {'kind': 'pool', 'ops': ops, 'end': end, 'remote': remote, 'close_timeout': rng.choice([0.05, 1]),
            'force': rng.choice([None, None, True, False]), 'policy': pol, 'knobs': knobs, 'sched_seed': ctx.case_seed(tag, i)}


class BodyError(Exception):
    pass


class Run(PoolRun):
    def __init__(self, sim, case):
        super().__init__(sim, case)
        self.spawn_fail = {'armed': False}
        sim.knobs['_spawn_hook'] = self._spawn_hook
        self.hist = []
        self.interrupted = False

    def _spawn_hook(self, sim, me, proc):
        if self.spawn_fail['armed']:
            self.spawn_fail['armed'] = False
            sim.fault('spawn-fails')
            raise OSError(11, 'Resource temporarily unavailable')

    def root(self):
        from pyworkers.pool import Pool, PoolError
        s, c = self.sim, self.case
        s.me().role = 'workload-pool'
        host = lib.start_server().addr if c['remote'] else None
        fail_reg = {'armed': False}

        class FailingPool(Pool):
            def handle_new_worker(self, worker):
                if fail_reg['armed']:
                    fail_reg['armed'] = False
                    raise BodyError('registration refused')

        pool = FailingPool(T.p_pool, kwargs={'poison': [POISON], 'origin_only': [UNBUILDABLE]}, retry=True, close_timeout=c['close_timeout'])
        if c['force'] is not None:
            pool.force = c['force']
        self.pool = pool
        self.stuck = []
        self.dead_before = {}
        end = c['end']
        if end in ('with-ok', 'with-exc'):
            r = lib.call_with_deadline(self._with_block, 3600.0, pool, host, end, fail_reg)
            self.hist.append(['with', r[0], type(r[1]).__name__ if r[1] is not None else None])
            if r[0] == 'hung':
                self.viol('close-returns', f'with-exit-hangs', s.blocked_report()[:6])
                return
            if r[0] == 'exc' and not isinstance(r[1], BodyError) and not (self.interrupted and isinstance(r[1], KeyboardInterrupt)):
                self.viol('close-returns', f'with-exit-raises:{type(r[1]).__name__}@{tb_tail(r[1])}')
        else:
            self.do_ops(pool, host, fail_reg)
            r = lib.call_with_deadline(getattr(pool, end), 3600.0)
            self.hist.append([end, r[0], type(r[1]).__name__ if r[1] is not None else None])
            if r[0] == 'hung':
                self.viol('close-returns', f'{end}-hangs', s.blocked_report()[:6])
                return
            if r[0] == 'exc':
                self.viol('close-returns', f'{end}-raises:{type(r[1]).__name__}@{tb_tail(r[1])}')
        # (a) nothing outlives the pool
        graceful = end in ('close', 'with-ok')
        for w in self.workers:
            if w.is_thread:
                continue
            if w in self.stuck and c['force'] is False:
                continue
            if not self.child_gone(w):
                self.viol('no-worker-outlives-pool', f'child-alive-after-{end}:{"stuck" if w in self.stuck else "normal"}:force={c["force"]}:{"remote" if w.is_remote else "process"}',
                          repr(w))
            a = lib.timed(w.is_alive)
            if a[1] is not False and not (w in self.stuck and c['force'] is False):
                self.viol('no-worker-outlives-pool', f'is_alive-after-{end}={a[1]}', repr(w))

        # (b) the same over the whole process table: children the pool has lost track of (e.g. replaced by a restart) count too
        if not (self.stuck and c['force'] is False):
            s.sleep(0.5)
            left = [p.name for p in s.procs.values() if p.alive and p is not s.root_proc and getattr(p, 'tag', None) != 'server']
            if left and not any(v['clause'] == 'no-worker-outlives-pool' for v in self.V):
                self.viol('no-worker-outlives-pool', f'process-left-after-{end}:not-among-the-pool-workers:force={c["force"]}', left)

    def _with_block(self, pool, host, end, fail_reg):
        with pool:
            self.do_ops(pool, host, fail_reg)
            if end == 'with-exc':
                raise BodyError('body failed')

    def live_workers(self):
        return [w for w in self.workers if lib.timed(w.is_alive)[1] is True and w not in self.stuck]

    def do_ops(self, pool, host, fail_reg):
        from pyworkers.pool import PoolError
        from pyworkers.worker import WorkerType
        from simos.shims import sim_kill
        s, c = self.sim, self.case
        for op in c['ops']:
            name = op[0]
            self.hist.append([name] + [x if not isinstance(x, list) else len(x) for x in op[1:]])
            if name in ('add', 'attach', 'add-fail-registration'):
                kind = op[1]
                kw = {'host': host} if kind == 'premote' else {}
                nprocs = set(p.pid for p in s.procs.values() if p.alive)
                if name == 'attach':
                    from pyworkers.utils import Pipe
                    r = lib.call_with_deadline(lib.make_worker, 600.0, kind, 'p_pool', kwargs={'poison': [POISON], 'origin_only': [UNBUILDABLE]}, host=host,
                                               results_pipe=Pipe())
                    if r[0] != 'ok':
                        continue
                    w = r[1]
                    r = lib.call_with_deadline(pool.attach, 600.0, w)
                    if r[0] == 'ok':
                        self.workers.append(w)
                    continue
                if name == 'add-fail-registration':
                    fail_reg['armed'] = True
                wt = P.PROBES[kind] if (len(op) > 2 and op[2]) or name != 'add' else WorkerType[lib.base_kind(kind).upper()]
                r = lib.call_with_deadline(pool.add_worker, 600.0, wt, **kw)
                fail_reg['armed'] = False
                if name == 'add-fail-registration':
                    if r[0] != 'exc' or not isinstance(r[1], BodyError):
                        self.viol('failed-registration', f'add_worker-{r[0]}-instead-of-raising')
                    s.sleep(0.5)
                    leaked = [p for p in s.procs.values() if p.alive and p.pid not in nprocs and getattr(p, 'tag', None) != 'server']
                    if leaked:
                        self.viol('failed-registration', f'child-left-behind-after-failed-registration:{kind}', [p.name for p in leaked])
                    continue
                if r[0] == 'ok':
                    self.workers.append(r[1])
                else:
                    s.probe(f'add_worker-{r[0]}')
            elif name == 'add-fail-construction':
                nprocs = set(p.pid for p in s.procs.values() if p.alive)
                nw = len(list(pool.workers))
                if op[1] == 'refused':
                    r = lib.call_with_deadline(pool.add_worker, 600.0, WorkerType.REMOTE, host=('127.0.0.1', 9))
                else:
                    self.spawn_fail['armed'] = True
                    r = lib.call_with_deadline(pool.add_worker, 600.0, WorkerType.PROCESS)
                    self.spawn_fail['armed'] = False
                if r[0] == 'ok':
                    self.viol('failed-construction', f'add_worker-succeeded-despite-{op[1]}')
                    self.workers.append(r[1])
                    continue
                if r[0] == 'hung':
                    self.viol('failed-construction', f'add_worker-hangs:{op[1]}', s.blocked_report()[:5])
                    return
                s.sleep(0.3)
                leaked = [p for p in s.procs.values() if p.alive and p.pid not in nprocs and getattr(p, 'tag', None) != 'server']
                if leaked:
                    self.viol('failed-construction', f'child-left-behind-after-failed-construction:{op[1]}', [p.name for p in leaked])
                if len(list(pool.workers)) != nw:
                    self.viol('failed-construction', f'failed-worker-registered-in-pool:{op[1]}')
            elif name in ('run', 'run-poison', 'run-interrupted') and self.stuck:
                continue      # a stuck worker never answers: the premise of run() is not met
            elif name == 'run-interrupted':
                def action(sim, t, code=None, line=None):
                    sim.fault('keyboard-interrupt-in-run')
                    t.pending_exc = KeyboardInterrupt
                s.add_trigger(at='dp', qualname=op[3], occurrence=op[2], action=action, label='kbint', pred=lambda t: True)
                r = lib.call_with_deadline(pool.run, 1800.0, iter(list(op[1])))
                s.dp_triggers[:] = [tr for tr in s.dp_triggers if tr.get('label') != 'kbint']
                if r[0] == 'hung':
                    self.viol('run-returns', 'run-hangs', s.blocked_report()[:6])
                    return
                if r[0] == 'exc' and isinstance(r[1], KeyboardInterrupt):
                    self.interrupted = True
                    if c['end'] in ('with-ok', 'with-exc'):
                        raise r[1]
                    return
            elif name == 'run-poison':
                inputs = op[1]
                live = self.live_workers()
                r = lib.call_with_deadline(pool.run, 1800.0, iter(list(inputs)))
                exp = [repr(['r', x]) for x in inputs if x != POISON]
                if r[0] == 'hung':
                    self.viol('run-returns', 'run-hangs:poison', s.blocked_report()[:6])
                    return
                if r[0] == 'exc' and isinstance(r[1], PoolError):
                    got = [repr(x) for x in (r[1].partial_results or [])]
                    if any(g not in exp for g in got) or len(set(got)) != len(got):
                        self.viol('run-per-run-results', 'partial-results-of-another-run-or-duplicated', {'got': got, 'exp': exp})
                elif r[0] == 'exc':
                    if not (isinstance(r[1], RuntimeError) and 'closed Pool' in str(r[1])):
                        self.viol('run-returns', f'run-raises:{type(r[1]).__name__}@{tb_tail(r[1])}', lib.safe_repr(r[1]))
                elif live and r[1] is not None:
                    self.viol('run-per-run-results', 'run-with-a-fatal-input-returned-normally', lib.safe_repr(r[1]))
            elif name == 'run':
                inputs = op[1]
                live = self.live_workers()
                mark = len(s.truth)
                deadset = [w for w in self.workers if lib.timed(w.is_alive)[1] is False]
                s.tlog('pool-run-start')
                r = lib.call_with_deadline(pool.run, 1800.0, iter(list(inputs)))
                exp = sorted(repr(['r', x]) for x in inputs)
                if r[0] == 'hung':
                    self.viol('run-returns', 'run-hangs', s.blocked_report()[:6])
                    return
                if r[0] == 'exc':
                    if isinstance(r[1], PoolError):
                        if live and not self.stuck:
                            s.sleep(0.5)
                            still = [w for w in live if not self.child_gone(w) and lib.timed(w.is_alive)[1] is True]
                            if still:
                                self.viol('run-per-run-results', 'PoolError-with-live-workers', str(r[1]))
                    elif isinstance(r[1], RuntimeError) and 'closed Pool' in str(r[1]):
                        pass
                    else:
                        self.viol('run-returns', f'run-raises:{type(r[1]).__name__}@{tb_tail(r[1])}', lib.safe_repr(r[1]))
                else:
                    got = r[1]
                    if got is None:
                        if inputs and self.workers:
                            # a worker that was dying when the run started (already closed by the pool, process not yet gone) does
                            # not count as live: look again after things have settled
                            s.sleep(0.5)
                            still = [w for w in live if not self.child_gone(w) and lib.timed(w.is_alive)[1] is True]
                            self.viol('run-per-run-results', f'run-returned-None:live-workers={len(still)}')
                    else:
                        g = sorted(map(repr, got))
                        if g != exp:
                            stale = [x for x in g if x not in exp]
                            self.viol('run-per-run-results', 'results-of-another-run' if stale else 'results-missing-or-duplicated',
                                      {'got': g, 'exp': exp})
                # dead workers got nothing in this run
                for e in s.truth[mark:]:
                    if e['kind'] == 'enqueued':
                        for w in deadset:
                            if list(w.id) == e['wid'] and not self.restarted_since(w):
                                self.viol('dead-workers-idle', 'input-handed-to-dead-worker', e)
            elif name == 'restart':
                rkw = {'force': False} if (len(op) > 1 and op[1] is False) else {}
                if self.stuck and any(w.is_thread for w in self.stuck):
                    continue      # a stuck thread cannot be stopped at all (excluded, see ASSUMPTIONS)
                old_children = [(w, s.procs.get(w.pid)) for w in pool.workers if not w.is_thread]
                r = lib.call_with_deadline(pool.restart_workers, 1800.0, timeout=1, **rkw)
                if r[0] == 'ok':
                    # a restart that reports success has stopped every old child
                    left = [p.name for w, p in old_children if p is not None and p is not s.root_proc and p.alive and not p.run_done]
                    if left:
                        self.viol('restart-workers', f'old-child-alive-after-restart_workers:{"stuck" if self.stuck else "normal"}:force={rkw.get("force")}', left)
                if r[0] == 'hung':
                    self.viol('restart-workers', 'restart_workers-hangs', s.blocked_report()[:6])
                    return
                if r[0] == 'exc':
                    if isinstance(r[1], RuntimeError) and ('Could not stop' in str(r[1]) or 'closed Pool' in str(r[1])):
                        s.probe('restart-refused')
                    else:
                        self.viol('restart-workers', f'restart_workers-raises:{type(r[1]).__name__}@{tb_tail(r[1])}', lib.safe_repr(r[1]))
                else:
                    self.stuck = []
                    # bookkeeping: workers and queues keyed by the new ids
                    ids = set(pool._workers.keys())
                    if ids != {w.id for w in pool._workers.values()} or set(pool._queues.keys()) - ids:
                        self.viol('restart-workers', 'stale-keys-after-restart', [list(map(str, ids))])
            elif name == 'kill':
                ws = [w for w in self.workers if not w.is_thread]
                if ws:
                    w = ws[op[1] % len(ws)]
                    p = s.procs.get(w.pid)
                    if p is not None and p is not s.root_proc and p.alive:
                        sim_kill(p.pid, signal.SIGKILL)
                        s.fault('sigkill')
                        s.sleep(0.05)
            elif name == 'stuck':
                ws = [w for w in self.workers if not w.is_thread and lib.timed(w.is_alive)[1] is True]
                if ws:
                    w = ws[op[1] % len(ws)]
                    try:
                        if len(op) > 2 and op[2]:
                            w.enqueue(UNBUILDABLE)
                            s.fault('unbuildable-result-then-stuck')
                        w.enqueue({'$swallow': True})
                        self.stuck.append(w)
                        s.fault('stuck-worker')
                        s.sleep(0.2)
                    except Exception:
                        pass

    def restarted_since(self, w):
        return False

    def obs_summary(self):
        return {'hist': self.hist[:10]}

    def judge(self, outcome):
        return self.finish(outcome)


def make_run(sim, case):
    return Run(sim, case)


def plan(ctx):
    rng = ctx.rng
    n = 1500 if ctx.tier != 'thorough' else 25000
    cases = []
    for i in range(n):
        cases.append(gen_case(ctx, rng, i))
        if len(cases) >= 1500:
            ctx.run(cases, 'histories')
            cases = []
            if ctx.time_left() < 0:
                break
    if cases:
        ctx.run(cases, 'histories')


def smoke_cases(ctx, n):
    return [gen_case(ctx, ctx.rng, i, 'smoke') for i in range(n)]


def shrink(case):
    c = dict(case)
    ops = c['ops']
    for k in range(len(ops)):
        yield dict(c, ops=ops[:k] + ops[k + 1:])
    if c.get('knobs'):
        yield dict(c, knobs={})
    if c['end'] != 'close':
        yield dict(c, end='close')
