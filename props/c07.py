"""C07 - Pool.run yields exactly one result per input under every schedule and death (retry on)."""
from workloads import lib
from . import pools
from .pools import PoolRun, tb_tail

ID = 'C07'
LEVEL = 'exploration'
BUDGET = {'quick': 100, 'thorough': 900}
RULE = ('Cases = pool of 1-3 real persistent workers of mixed kinds x 0-6 unique inputs x extra pending 0-2 x poison inputs / '
        'worker-specific failures / SIGKILL at seeded or directed instants (e.g. inside handle_new_result / try_enqueue of the '
        'pool) x optional refusing enqueue_fn (optionally passing a keyword argument with some inputs only) x per-worker input callables x schedule, with retry enabled.')
ASSUMPTIONS = ['every worker eventually answers or dies (targets terminate; killed workers are dead)']


class Run(PoolRun):
    def root(self):
        from pyworkers.pool import PoolError
        s, c = self.sim, self.case
        s.me().role = 'workload-pool'
        host = lib.start_server().addr if any(w['kind'] == 'premote' for w in c['workers']) else None
        pool = self.make_pool(host, retry=True, close_timeout=1)
        self.add_workers(pool, host)
        if not self.workers:
            return
        r = self.run_pool(pool, c['inputs'])
        exp = sorted(map(repr, [pools.expected_result(c, x) for x in c['inputs']]))
        self.res = {'status': r[0], 'n_inputs': len(c['inputs'])}
        if r[0] == 'hung':
            bl = [b for b in s.blocked_report() if b['role'].startswith('call_with_deadline')]
            fr = bl[-1]['frames'][0].split(':')[0] if bl and bl[-1]['frames'] else '?'
            self.viol('terminates', f'run-never-returns:blocked@{fr}', s.blocked_report()[:6])
        elif r[0] == 'exc':
            self.res['exc'] = type(r[1]).__name__
            if not isinstance(r[1], PoolError):
                self.viol('no-internal-error', f'run-raises:{type(r[1]).__name__}@{tb_tail(r[1])}', lib.safe_repr(r[1]))
        else:
            got = r[1]
            if c['return_results']:
                if not isinstance(got, list):
                    if c['inputs']:
                        self.viol('one-result-per-input', f'run-returned-{type(got).__name__}-instead-of-list')
                else:
                    g = sorted(map(repr, got))
                    if g != exp:
                        dup = len(set(g)) != len(g)
                        missing = [x for x in exp if x not in g]
                        foreign = [x for x in g if x not in exp]
                        self.viol('one-result-per-input', 'results-' + ('duplicated' if dup else 'missing' if missing and not foreign else 'foreign'),
                                  {'got': g, 'expected': exp})
        try:
            lib.call_with_deadline(pool.terminate, 600.0)
        except Exception:
            pass

    def judge(self, outcome):
        return self.finish(outcome)


def make_run(sim, case):
    return Run(sim, case)


def plan(ctx):
    rng = ctx.rng
    n = 2000 if ctx.tier != 'thorough' else 60000
    cases = []
    for i in range(n):
        cases.append(pools.gen_pool_case(ctx, rng, i, 'random', retry=True, directed_late=(i % 4 == 3), double_death=(i % 8 == 2), enqueue_fn_ok=(i % 4 != 3 and i % 8 != 2), kw_ok=True))
        if len(cases) >= 2000:
            ctx.run(cases, 'pool-runs')
            cases = []
            if ctx.time_left() < 0:
                break
    if cases:
        ctx.run(cases, 'pool-runs')


def smoke_cases(ctx, n):
    return [pools.gen_pool_case(ctx, ctx.rng, i, 'smoke', retry=True) for i in range(n)]


def shrink(case):
    c = dict(case)
    for k in range(len(c['inputs'])):
        yield dict(c, inputs=c['inputs'][:k] + c['inputs'][k + 1:])
    for k in range(len(c['faults'])):
        yield dict(c, faults=c['faults'][:k] + c['faults'][k + 1:])
    if len(c['workers']) > 1:
        for k in range(len(c['workers'])):
            yield dict(c, workers=c['workers'][:k] + c['workers'][k + 1:])
    if c.get('refuse'):
        yield dict(c, refuse=None)
    if c.get('knobs'):
        yield dict(c, knobs={})
    if c.get('extra_pending'):
        yield dict(c, extra_pending=c['extra_pending'] - 1)
