"""Shared Pool workload for C07 / C08 / C09: real persistent workers of mixed kinds on simos."""
import signal
from workloads import lib, targets as T
from workloads import probes as P
from . import common as C

PKINDS = ['pthread', 'pprocess', 'premote']


def gen_pool_case(ctx, rng, i, tag, retry=None, enqueue_fn_ok=True, return_results=None, survivor=None, directed_late=False, double_death=False, kw_ok=False):
    from harness.check import draw_env
    nw = rng.randrange(1, 4)
    remote = rng.random() < 0.35
    workers = []
    for k in range(nw):
        kind = rng.choice(PKINDS if remote else PKINDS[:2])
        workers.append({'kind': kind, 'fail_after': rng.choice([None, None, None, 0, 1, 2]), 'probe': rng.random() < 0.7})
    if survivor is True:
        workers[rng.randrange(nw)]['fail_after'] = None
    ninp = rng.randrange(0, 7)
    inputs = rng.sample(range(1, 60), ninp)
    poison = [x for x in inputs if rng.random() < 0.12]
    if survivor is True:
        poison = []
    faults = []
    ndeath = 0
    for _ in range(rng.randrange(0, 3)):
        if rng.random() < 0.5:
            r = rng.random()
            if r < 0.5:
                faults.append({'kind': 'sigkill', 'victim_index': rng.randrange(nw), 'nline': rng.randrange(30, 400)})
            else:
                faults.append({'kind': 'sigkill', 'any_thread': True,
                               'qualname': rng.choice(['Pool.run.<locals>.handle_new_result', 'Pool.run.<locals>.try_enqueue',
                                                       'Pool.run.<locals>.handle_enqueue', 'Pool.run.<locals>.handle_death',
                                                       'Pool.run.<locals>.next_inputs', 'Pool.run']),
                               'occ': rng.randrange(1, 8), 'target': 'victim', 'target_index': rng.randrange(nw)})
    if directed_late:
        # directed family: kill the worker that has just delivered a result, before the pool refills it
        nw = 3
        workers = [{'kind': rng.choice(['pprocess', 'pprocess', 'premote'] if remote else ['pprocess']), 'fail_after': None,
                    'probe': rng.random() < 0.5} for _ in range(nw)]
        inputs = rng.sample(range(1, 60), rng.randrange(4, 9))
        poison = []
        faults = [{'kind': 'sigkill', 'any_thread': True, 'qualname': 'Pool.run.<locals>.handle_new_result',
                   'occ': rng.randrange(1, 7), 'target': 'frame-local:worker'}]
    if double_death:
        # directed family: a second worker is killed exactly while the pool handles the death of the first one
        nw = 3
        workers = [{'kind': rng.choice(['pprocess', 'pprocess', 'premote'] if remote else ['pprocess']), 'fail_after': None,
                    'probe': rng.random() < 0.5} for _ in range(nw)]
        workers[rng.randrange(nw)]['fail_after'] = rng.choice([0, 1])
        inputs = rng.sample(range(1, 60), rng.randrange(2, 6))
        poison = []
        faults = [{'kind': 'sigkill', 'any_thread': True, 'qualname': rng.choice(['Pool.run.<locals>.handle_death', 'Pool.run.<locals>.get_next_idle_worker']),
                   'occ': rng.randrange(1, 3), 'target': 'victim', 'target_index': rng.randrange(nw)}]
    if survivor is True:
        faults = [f for f in faults if False]
    refuse = None
    if enqueue_fn_ok and rng.random() < 0.25:
        refuse = [[rng.randrange(nw), x] for x in inputs if rng.random() < 0.3]
    kw_tag = None
    if kw_ok and enqueue_fn_ok and rng.random() < 0.2:
        # a user enqueue function that passes a keyword argument along with some of the inputs only (their results show it)
        kw_tag = [x for x in inputs if rng.random() < 0.4]
        refuse = refuse or []
    pol, knobs = draw_env(rng, tcp=remote, adversarial_ok=True)
    return {'kind': 'pool', 'workers': workers, 'inputs': inputs, 'poison': poison, 'faults': faults, 'refuse': refuse, 'kw_tag': kw_tag,
            'extra_pending': rng.choice([1, 2]) if directed_late else rng.choice([0, 0, 1, 2]), 'retry': rng.choice([True, True, False]) if retry is None else retry,
            'return_results': rng.choice([True, True, True, False]) if return_results is None else return_results,
            'input_mode': rng.choice(['iter', 'iter', 'callable']), 'slow': rng.choice([0.0, 0.0, 0.01]),
            'linger': rng.choice([0.0, 0.0, 0.0, 0.5, 2.0]),
            'use_with': rng.random() < 0.5, 'policy': pol, 'knobs': knobs, 'sched_seed': ctx.case_seed(tag, i)}


class PoolRun:
    def __init__(self, sim, case):
        self.sim = sim
        self.case = case
        self.V = []
        self.res = {}
        self.workers = []
        for f in case.get('faults') or []:
            C.install_fault(sim, f)

    def viol(self, clause, man, detail=None):
        self.V.append({'clause': clause, 'manifestation': man, 'detail': detail})

    # ------------------------------------------------------------------ helpers
    def make_pool(self, host, **kw):
        from pyworkers.pool import Pool
        c = self.case
        return Pool(T.p_pool, kwargs={'poison': c['poison'], 'd': c.get('slow', 0.0), 'linger': c.get('linger', 0.0)}, **kw)

    def add_workers(self, pool, host):
        from pyworkers.worker import WorkerType
        for k, wd in enumerate(self.case['workers']):
            kind = wd['kind']
            kw = {}
            if wd.get('fail_after') is not None:
                kw['kwargs'] = {'poison': self.case['poison'], 'd': self.case.get('slow', 0.0), 'fail_after': wd['fail_after'],
                                'linger': self.case.get('linger', 0.0)}
            if kind == 'premote':
                kw['host'] = host
            wt = P.PROBES[kind] if wd.get('probe') else WorkerType[lib.base_kind(kind).upper()]
            r = lib.call_with_deadline(pool.add_worker, 600.0, wt, **kw)
            if r[0] != 'ok':
                # failures / hangs of worker construction under injected kills belong to C20 and C09
                self.sim.probe(f'add_worker-{r[0]}')
                continue
            self.workers.append(r[1])

    def child_gone(self, w):
        if w.is_thread:
            ch = getattr(w, '_child', None)
            return ch is None or ch._st is None or ch._st.state == 'done'
        p = self.sim.procs.get(w.pid)
        # a worker whose run loop has ended (pipes closed, outcome sent) has died as a worker even if its process lingers
        return p is None or p is self.sim.root_proc or not p.alive or p.run_done

    def run_pool(self, pool, inputs):
        c = self.case
        s = self.sim
        kw = {'worker_extra_pending_inputs': c['extra_pending'], 'return_results': c['return_results']}
        if c.get('refuse') is not None:
            refuse = {(a, b) for a, b in c['refuse']}
            ws = self.workers

            def enqueue_fn(worker, *inp):
                idx = next((i for i, w in enumerate(ws) if w is worker), -1)
                if (idx, inp[0]) in refuse:
                    return False
                if c.get('kw_tag') and inp[0] in c['kw_tag']:
                    worker.enqueue(*inp, tagk='k')
                else:
                    worker.enqueue(*inp)
                return True
            kw['enqueue_fn'] = enqueue_fn
        if c['input_mode'] == 'callable':
            it = iter(list(inputs))

            def src(worker):
                return next(it)
            sources = [src]
        else:
            sources = [iter(list(inputs))]
        s.tlog('pool-run-start')
        r = lib.call_with_deadline(pool.run, 1800.0, *sources, **kw)
        s.tlog('pool-run-end', status=r[0])
        return r

    def obs_summary(self):
        return self.res

    def finish(self, outcome):
        if outcome == 'spin':
            info = self.sim.outcome_info or {}
            fr = [f.split(':')[0] for f in info.get('stack', []) if 'Pool' in f]
            loops = [f for f in fr if f.endswith('handle_death') or f.endswith('first_enqueue')]
            fr = loops or fr[-1:]
            return [{'clause': 'terminates', 'manifestation': f'spins-forever@{fr[0] if fr else "?"}:enqueue_fn={"yes" if self.case.get("refuse") is not None else "no"}',
                     'detail': info}]
        if outcome in ('hang', 'time-cap'):
            bl = (self.sim.outcome_info or {}).get('blocked') or []
            return [{'clause': 'terminates', 'manifestation': 'workload-hang', 'detail': bl}]
        seen, out = set(), []
        for v in self.V:
            k = (v['clause'], v['manifestation'])
            if k not in seen:
                seen.add(k)
                out.append(v)
        return out


def expected_result(case, x):
    return ['r', x, 'k'] if case.get('kw_tag') and x in case['kw_tag'] else ['r', x]


def tb_tail(e):
    import traceback
    fr = traceback.extract_tb(e.__traceback__)
    inner = [f for f in fr if 'pyworkers' in f.filename]
    return f'{inner[-1].name}' if inner else '?'
