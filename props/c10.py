"""C10 - message framing survives any segmentation and detects any truncation."""
import itertools
import struct
from workloads import lib, targets as T
from simos.sync import Thread as SimThread
from . import common as C

ID = 'C10'
LEVEL = 'fault_enumeration'
BUDGET = {'quick': 90, 'thorough': 900}
RULE = ('(1) scripted transport: message sequences (1-4 messages, payloads 0 B - 300 KB) cut into reads in every possible way for '
        'short streams, every single and double cut plus seeded random cuts and 1-byte reads for long ones, and truncated at '
        'every offset with FIN and with RST; (2) the same on simulated TCP with a sender and a receiver thread, seeded '
        'segmentation, latency, small buffers, peer close (FIN / RST) at an offset, and handled signals arriving while the sender '
        'is blocked mid-message.')
ASSUMPTIONS = ['"promptly" = after the first read reporting EOF / reset the receiver issues no further read before raising']

PAYLOADS = [None, 0, '', b'', 'x', [1, 2], {'a': None}, 'y' * 40, list(range(30))]


def mk_msgs(spec):
    out = []
    for m in spec:
        if isinstance(m, dict) and '$big' in m:
            out.append(bytes((i * 31 + m.get('salt', 0)) & 0xFF for i in range(256)) * (m['$big'] // 256) + b'\x07' * (m['$big'] % 256))
        else:
            out.append(m)
    return out


class Capture:
    def __init__(self):
        self.data = bytearray()

    def sendall(self, b):
        self.data += b

    def send(self, b):
        self.data += b
        return len(b)


class ScriptSock:
    """recv() serves a recorded byte stream in scripted pieces, then reports FIN or RST"""

    def __init__(self, data, cuts, end, limit=None):
        self.data = data if limit is None else data[:limit]
        self.cuts = sorted(set(c for c in cuts if 0 < c < len(self.data)))
        self.pos = 0
        self.end = end
        self.ended = False
        self.reads_after_end = 0
        self.nreads = 0

    def recv(self, n):
        self.nreads += 1
        if self.nreads > 20000:
            raise RuntimeError('SPIN')
        if self.pos >= len(self.data):
            if self.ended:
                self.reads_after_end += 1
                return b''
            self.ended = True
            if self.end == 'rst':
                raise ConnectionResetError(104, 'Connection reset by peer')
            return b''
        nxt = next((c for c in self.cuts if c > self.pos), len(self.data))
        k = min(n, nxt - self.pos)
        b = bytes(self.data[self.pos:self.pos + k])
        self.pos += k
        return b


def stream_of(msgs):
    from pyworkers.remote import send_msg
    cap = Capture()
    bounds = []
    for m in msgs:
        send_msg(cap, m)
        bounds.append(len(cap.data))
    return bytes(cap.data), bounds


def eval_scripted(msgs, data, bounds, cuts, end, limit):
    """-> None if fine else (clause, manifestation, detail)"""
    from pyworkers.remote import recv_msg, ConnectionClosedError
    sock = ScriptSock(data, cuts, end, limit)
    got = []
    total = len(data) if limit is None else limit
    nfull = sum(1 for b in bounds if b <= total)
    try:
        for _ in range(len(msgs) + 1):
            got.append(recv_msg(sock))
        return ('returns-only-sent-messages', 'extra-message-after-end-of-stream', lib.safe_repr(got[-1]))
    except ConnectionClosedError:
        pass
    except RuntimeError as e:
        if 'SPIN' in str(e):
            where = 'header' if (sock.pos in [0] + bounds) else 'body'
            return ('never-spins', f'spins-on-eof-in-{where}', {'cuts': cuts, 'limit': limit})
        raise
    except Exception as e:   # noqa
        return ('raises-ConnectionClosedError', f'raises:{type(e).__name__}', {'cuts': cuts, 'limit': limit, 'end': end})
    if got != msgs[:nfull]:
        kind = 'partial-or-wrong-message' if len(got) >= nfull else 'message-lost'
        return ('same-sequence', kind, {'got': lib.safe_repr(got), 'n_expected': nfull, 'cuts': cuts[:20], 'limit': limit})
    if sock.reads_after_end:
        return ('prompt', 'reads-again-after-eof', {'reads_after_end': sock.reads_after_end})
    return None


class Run:
    def __init__(self, sim, case):
        self.sim = sim
        self.case = case
        self.V = []
        self.evals = 0
        self.info = {}

    def viol(self, t):
        if t and not any(v['clause'] == t[0] and v['manifestation'] == t[1] for v in self.V):
            self.V.append({'clause': t[0], 'manifestation': t[1], 'detail': t[2]})
        if t and t[0] == 'never-spins':
            raise StopIteration     # spinning evaluations are slow: one is enough for this case

    def root(self):
        c = self.case
        if c['mode'] == 'scripted':
            try:
                self.scripted()
            except StopIteration:
                pass
        else:
            self.tcp()

    # ------------------------------------------------------------------ scripted transport
    def scripted(self):
        import random
        c = self.case
        msgs = mk_msgs(c['msgs'])
        data, bounds = stream_of(msgs)
        L = len(data)
        self.info = {'stream_len': L, 'plan': c['plan']}
        plan = c['plan']
        if plan == 'all-seg':
            lo, hi = c['range']
            for mask in range(lo, hi):
                cuts = [i + 1 for i in range(L - 1) if mask >> i & 1]
                self.viol(eval_scripted(msgs, data, bounds, cuts, 'fin', None))
                self.evals += 1
        elif plan == 'single-double':
            pts = c['points']
            for a in pts:
                self.viol(eval_scripted(msgs, data, bounds, [a], 'fin', None))
                self.evals += 1
            for a, b in c['pairs']:
                self.viol(eval_scripted(msgs, data, bounds, [a, b], 'fin', None))
                self.evals += 1
        elif plan == 'one-byte':
            self.viol(eval_scripted(msgs, data, bounds, list(range(1, min(L, 5000))), 'fin', None))
            self.evals += 1
        elif plan == 'random':
            rng = random.Random(c['sched_seed'])
            for _ in range(c['n']):
                k = rng.randrange(0, 12)
                cuts = [rng.randrange(1, L) for _ in range(k)] if L > 1 else []
                if rng.random() < 0.5:
                    b = rng.choice(bounds)
                    cuts += [max(1, b + d) for d in (-2, -1, 1, 2, 3, 4, 5)]
                self.viol(eval_scripted(msgs, data, bounds, cuts, 'fin', None))
                self.evals += 1
        elif plan == 'trunc':
            for k in c['offsets']:
                for end in ('fin', 'rst'):
                    for cuts in ([], [max(1, k - 1)], list(range(1, min(k, 64)))):
                        self.viol(eval_scripted(msgs, data, bounds, cuts, end, k))
                        self.evals += 1

    # ------------------------------------------------------------------ simulated TCP
    def tcp(self):
        from pyworkers.remote import send_msg, recv_msg, ConnectionClosedError, set_linger
        from simos.sockshim import SocketFacade
        S = SocketFacade()
        s, c = self.sim, self.case
        msgs = mk_msgs(c['msgs'])
        data, bounds = stream_of(msgs)
        cut = c.get('truncate')
        l = S.socket(S.AF_INET, S.SOCK_STREAM)
        l.bind(('127.0.0.1', 0))
        l.listen()
        got = []
        res = {}

        def sender():
            cs = S.socket(S.AF_INET, S.SOCK_STREAM)
            cs.connect(l.getsockname())
            if cut is None:
                for m in msgs:
                    send_msg(cs, m)
                cs.close()
            else:
                if c.get('end') == 'rst':
                    set_linger(cs, True, 0)
                if cut:
                    cs.sendall(data[:cut])
                if c.get('end') == 'rst':
                    s.sleep(0.5)       # let the data arrive before the reset
                cs.close()

        def receiver():
            rs, _ = l.accept()
            try:
                while True:
                    got.append(recv_msg(rs))
            except ConnectionClosedError:
                res['end'] = 'closed'
            except BaseException as e:   # noqa
                res['end'] = 'exc:' + type(e).__name__

        tr = SimThread(target=receiver)
        tr.start()
        if c.get('signals'):
            # the sender is the main thread of its process and a handled signal (think SIGCHLD / SIGALRM / SIGUSR1 handlers of
            # the embedding program) arrives while it is blocked in the middle of a message with the socket buffer full
            import signal as _sig
            from simos.shims import SignalFacade, sim_kill
            SignalFacade.signal(_sig.SIGUSR1, lambda *a: None)
            me = s.me()
            pid = me.proc.pid
            st = {'n': 0, 'left': c['signals']}

            def hook(sim, t, what):
                if t is me and what and str(what).startswith('send-full') and st['left'] > 0:
                    st['n'] += 1
                    if st['n'] >= c.get('signal_at', 1):
                        st['left'] -= 1
                        sim.fault('signal-during-blocked-send')
                        sim.add_timer(sim.now + 0.0005, lambda: sim_kill(pid, _sig.SIGUSR1))
            s.block_hooks.append(hook)
            try:
                sender()
            except BaseException as e:   # noqa
                res['sender'] = 'exc:' + type(e).__name__
            finally:
                s.block_hooks.remove(hook)
        else:
            ts = SimThread(target=sender)
            ts.start()
        tr.join(3600.0)
        total = len(data) if cut is None else cut
        nfull = sum(1 for b in bounds if b <= total)
        self.evals = 1
        if tr.is_alive():
            self.viol(('never-blocks', 'receiver-blocked-after-peer-closed', s.blocked_report()[:4]))
            return
        if res.get('end') != 'closed':
            self.viol(('raises-ConnectionClosedError', f'receiver-ended-with:{res.get("end")}', None))
        if got != msgs[:nfull]:
            self.viol(('same-sequence', 'tcp:wrong-sequence', {'got': lib.safe_repr(got), 'n_expected': nfull}))

    def obs_summary(self):
        return {'info': self.info, 'evals': self.evals}

    def judge(self, outcome):
        if outcome == 'spin':
            return [{'clause': 'never-spins', 'manifestation': 'tcp:spins', 'detail': self.sim.outcome_info}]
        if outcome in ('hang', 'time-cap'):
            return [{'clause': 'never-blocks', 'manifestation': 'tcp:hang', 'detail': (self.sim.outcome_info or {}).get('blocked')}]
        return self.V


def make_run(sim, case):
    return Run(sim, case)


def _case(ctx, mode, msgs, tag, i, **kw):
    c = {'kind': mode, 'mode': mode, 'msgs': msgs, 'policy': {'kind': 'cooperative'} if mode == 'scripted' else {'kind': 'random', 'p_stay': 0.5},
         'knobs': {'spin_limit': 10 ** 9, 'max_steps': 10 ** 9} if mode == 'scripted' else {},
         'sched_seed': ctx.case_seed(tag, i)}
    c.update(kw)
    return c


def plan(ctx):
    import pyworkers.remote     # noqa
    rng = ctx.rng
    quick = ctx.tier != 'thorough'
    from harness.check import draw_env
    cases = []
    # (1a) every segmentation of short streams
    short = [[None], [0, None], [None, None], ['', 0]] if quick else [[None], [0, None], [None, None], ['', 0], [None, 0, ''], ['x', None]]
    nseg = 0
    for msgs in short:
        data, bounds = stream_of(mk_msgs(msgs))
        L = len(data)
        if L > (17 if quick else 21):
            continue
        total = 1 << (L - 1)
        nseg += total
        step = 4096
        for lo in range(0, total, step):
            cases.append(_case(ctx, 'scripted', msgs, 'allseg', len(cases), plan='all-seg', range=[lo, min(total, lo + step)]))
    # (1b) single / double cuts, 1-byte reads, random cuts, truncation at every offset
    seqs = [[{'$big': 300}], ['y' * 40, [1, 2]], [None, {'$big': 1000}, 0], [{'$big': 70000}], [b'', 'x', {'a': None}, list(range(30))]]
    if not quick:
        seqs += [[{'$big': 300000}], [{'$big': 65536, 'salt': 3}, {'$big': 5}], [list(range(30)), 'y' * 40, None, 0]]
    ntrunc = 0
    for msgs in seqs:
        data, bounds = stream_of(mk_msgs(msgs))
        L = len(data)
        near = sorted({max(1, min(L - 1, b + d)) for b in [0] + bounds for d in range(-6, 10)})
        pts = list(range(1, L)) if L <= 600 else sorted(set(near + [rng.randrange(1, L) for _ in range(300)]))
        pairs = [(a, b) for a in near for b in near if a < b]
        if L <= 120:
            pairs = [(a, b) for a in range(1, L) for b in range(a + 1, L)]
        for k in range(0, len(pairs), 3000):
            cases.append(_case(ctx, 'scripted', msgs, 'sd', len(cases), plan='single-double', points=pts if k == 0 else [], pairs=pairs[k:k + 3000]))
        cases.append(_case(ctx, 'scripted', msgs, 'ob', len(cases), plan='one-byte'))
        cases.append(_case(ctx, 'scripted', msgs, 'rnd', len(cases), plan='random', n=300 if quick else 3000))
        offs = list(range(0, L)) if L <= (4096 if not quick else 700) else sorted(set(near + list(range(0, 64)) + [rng.randrange(0, L) for _ in range(400)]))
        ntrunc += len(offs)
        for k in range(0, len(offs), 400):
            cases.append(_case(ctx, 'scripted', msgs, 'tr', len(cases), plan='trunc', offsets=offs[k:k + 400]))
    ctx.exhaustive_info = {'space': 'every segmentation of streams <= %d bytes; every single cut and (near-boundary) double cut; every '
                                    'truncation offset x {FIN, RST} x 3 read patterns of the listed message sequences' % (17 if quick else 21),
                           'segmentations': nseg, 'truncation_offsets': ntrunc, 'complete': True}
    ctx.run(cases, 'scripted-transport')
    # (2) simulated TCP
    n = 600 if quick else 15000
    tc = []
    for i in range(n):
        msgs = [rng.choice(PAYLOADS + [{'$big': rng.choice([300, 5000, 70000, 300000])}]) for _ in range(rng.randrange(1, 5))]
        pol, knobs = draw_env(rng, tcp=True)
        knobs['segmentation'] = rng.choice([0.0, 0.5, 0.9])
        kw = {}
        if rng.random() < 0.6:
            data, bounds = stream_of(mk_msgs(msgs))
            b = rng.choice([0] + bounds)
            kw['truncate'] = max(0, min(len(data) - 1, rng.choice([b + rng.randrange(-3, 8), rng.randrange(0, len(data))])))
            kw['end'] = rng.choice(['fin', 'rst'])
        elif rng.random() < 0.5:
            # handled signals while the sender is blocked mid-message (needs a message larger than the socket buffers)
            msgs[rng.randrange(len(msgs))] = {'$big': rng.choice([300000, 600000])}
            kw['signals'] = rng.randrange(1, 4)
            kw['signal_at'] = rng.randrange(1, 4)
        c = _case(ctx, 'tcp', msgs, 'tcp', i, **kw)
        c['policy'], c['knobs'] = pol, knobs
        tc.append(c)
    ctx.run(tc, 'simulated-tcp')


def smoke_cases(ctx, n):
    from harness.check import draw_env
    rng = ctx.rng
    out = []
    for i in range(n):
        msgs = [rng.choice(PAYLOADS + [{'$big': 5000}]) for _ in range(rng.randrange(1, 4))]
        pol, knobs = draw_env(rng, tcp=True)
        c = _case(ctx, 'tcp', msgs, 'smoke', i)
        c['policy'], c['knobs'] = pol, knobs
        out.append(c)
    return out
