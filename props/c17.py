"""C17 - restart() always yields a fresh, equivalent, live worker."""
from workloads import lib, targets as T
from . import common as C

ID = 'C17'
LEVEL = 'exploration'
BUDGET = {'quick': 90, 'thorough': 900}
RULE = ('Cases = persistent worker kind x state at restart (never used, results unread, inputs still queued, closed, died by '
        'exception, killed by signal, busy with a long cooperative call, uncooperative target) x 1-3 consecutive restarts x with / without a caller-supplied results '
        'pipe x restart(timeout) x schedule; every incarnation gets fresh unique inputs.')
ASSUMPTIONS = ['responsive clock for the liveness clause "returns with a live worker"']

PKINDS = ['pthread', 'pprocess', 'premote']
STATES = ['unused', 'unread', 'queued', 'closed', 'died', 'killed', 'stuck', 'pipe-full', 'busy', 'unb-busy']


def gen_case(ctx, rng, i, tag='random'):
    from harness.check import draw_env
    kind = rng.choice(PKINDS)
    pol, knobs = draw_env(rng, tcp=(kind == 'premote'))
    states = []
    for _ in range(rng.randrange(1, 4)):
        st = rng.choice(STATES)
        if st == 'killed' and kind == 'pthread':
            st = 'died'
        states.append(st)
    own_pipe = rng.random() < 0.5
    fault = None
    if 'pipe-full' in states:
        # results of the old incarnation (nearly) fill the caller-supplied results pipe, so that the old child may block
        # writing its last result or its end marker
        own_pipe = True
        knobs['pipe_cap'] = 4096
        states = [s_ if s_ != 'pipe-full' or j == states.index('pipe-full') else 'unread' for j, s_ in enumerate(states)]
    elif kind == 'premote' and rng.random() < 0.4:
        fault = {'kind': 'stall', 'role': 'RemoteWorker._run_frontend', 'any_thread': True,
                 'qualname': rng.choice(['PersistentRemoteWorker._fetch_results', 'recv_msg']), 'occ': rng.randrange(2, 14),
                 'duration': rng.choice([0.5, 3.0, 20.0])}
    elif kind == 'pthread' and rng.random() < 0.5:
        # the old worker thread is descheduled inside its own shutdown (result already stored, end marker / pipe close still to do)
        fault = {'kind': 'stall', 'role': 'ThreadWorker._run', 'any_thread': True,
                 'qualname': rng.choice(['PersistentThreadWorker._cleanup', 'PersistentThreadWorker._cleanup', 'ThreadWorker._run']),
                 'occ': rng.randrange(1, 12), 'duration': rng.choice([0.5, 3.0])}
    elif kind == 'pprocess' and rng.random() < 0.3:
        fault = {'kind': 'stall', 'role': 'child-main:ProcessWorker._run', 'any_thread': True,
                 'qualname': rng.choice(['PersistentProcessWorker._cleanup', 'ProcessWorker._run']),
                 'occ': rng.randrange(1, 14), 'duration': rng.choice([0.5, 3.0])}
    return {'kind': kind, 'states': states, 'own_pipe': own_pipe, 'timeout': rng.choice([0.05, 1]),
            'fill': rng.randrange(3400, 4080), 'restart_force': rng.choice([None, False]), 'fault': fault,
            'policy': pol, 'knobs': knobs, 'sched_seed': ctx.case_seed(tag, i)}


class Run:
    def __init__(self, sim, case):
        self.sim = sim
        self.case = case
        self.V = []
        self.log = []
        C.install_fault(sim, case.get('fault'))

    def viol(self, clause, man, detail=None):
        self.V.append({'clause': clause, 'manifestation': man, 'detail': {'detail': detail, 'log': self.log[-10:]}})

    def child_alive(self, kind, ident):
        s = self.sim
        if kind == 'pthread':
            th = ident
            return th is not None and th._st is not None and th._st.state in ('runnable', 'blocked')
        p = s.procs.get(ident)
        return p is not None and p.alive and p is not s.root_proc

    def child_ident(self, kind, w):
        return w._child if kind == 'pthread' else w.pid

    def root(self):
        import signal
        from pyworkers.utils import Pipe
        from simos.shims import sim_kill
        s, c = self.sim, self.case
        kind = c['kind']
        host = lib.start_server().addr if kind == 'premote' else None
        kw = {}
        if c['own_pipe']:
            kw['results_pipe'] = Pipe()
        r = lib.call_with_deadline(lib.make_worker, 600.0, kind, 'p_poison', kwargs={'poison': [-1], 'origin_only': [-2]}, host=host, name='wname', userid=77,
                                   probe=False, **kw)
        if r[0] != 'ok':
            return
        w = r[1]
        uniq = 1000
        for gen, st in enumerate(c['states']):
            old_id = w.id
            old_child = self.child_ident(kind, w)
            old_front = w.__dict__.get('_child') if kind == 'premote' else None   # parent-side frontend thread of a remote worker
            # bring the incarnation into the requested state
            sent = []
            if st in ('unread', 'queued', 'closed'):
                for _ in range(2):
                    uniq += 1
                    try:
                        w.enqueue(uniq)
                        sent.append(uniq)
                    except Exception as e:   # noqa
                        self.log.append(['enqueue-exc', type(e).__name__])
                if st == 'unread':
                    s.sleep(0.3)
                if st == 'closed':
                    try:
                        w.close()
                    except Exception as e:   # noqa
                        self.log.append(['close-exc', type(e).__name__])
            elif st == 'died':
                try:
                    w.enqueue(-1)
                except Exception:
                    pass
                s.sleep(0.3)
            elif st == 'killed':
                p = s.procs.get(w.pid)
                if p is not None and p is not s.root_proc:
                    try:
                        sim_kill(p.pid, signal.SIGKILL)
                    except ProcessLookupError:
                        pass
                s.sleep(0.1)
            elif st == 'pipe-full':
                try:
                    w.enqueue(uniq + 500, big=c.get('fill', 3900))
                    sent.append(uniq + 500)
                except Exception as e:   # noqa
                    self.log.append(['enqueue-exc', type(e).__name__])
                s.sleep(0.3)
            elif st == 'busy':
                # in the middle of a long, cooperative call (the timed wait of restart() expires, its terminate request does the job)
                try:
                    w.enqueue({'$busy': 60.0})
                except Exception as e:   # noqa
                    self.log.append(['enqueue-exc', type(e).__name__])
                s.sleep(0.2)
            elif st == 'unb-busy':
                # the worker has returned a value its parent cannot rebuild (a remote worker's result stream is given up there) and
                # is in the middle of the next, long, cooperative call
                try:
                    w.enqueue(-2)
                    w.enqueue({'$busy': 60.0})
                except Exception as e:   # noqa
                    self.log.append(['enqueue-exc', type(e).__name__])
                s.sleep(0.3)
            elif st == 'stuck':
                # swallow-everything item: the old incarnation cannot be stopped gracefully
                w2 = None
            stuck = (st == 'stuck')
            if stuck:
                # replace the target behaviour for this incarnation by enqueuing to a swallowing target: use kwargs override
                try:
                    w.enqueue({'$swallow': True})
                except Exception:
                    pass
                s.sleep(0.2)
            self.log.append(['state', gen, st])
            kwr = {'timeout': c['timeout']}
            if c.get('restart_force') is False and kind != 'pthread':
                kwr['force'] = False
            if c['own_pipe']:
                newpipe = Pipe()
                kwr['results_pipe'] = newpipe
            r = lib.call_with_deadline(w.restart, 900.0, **kwr)
            self.log.append(['restart', r[0], type(r[1]).__name__ if r[1] is not None else None])
            if r[0] == 'hung':
                bl = [b for b in s.blocked_report() if b['role'].startswith('call_with_deadline')]
                fr = bl[-1]['frames'][0].split(':')[0] if bl and bl[-1]['frames'] else '?'
                self.viol('restart-returns', f'restart-hangs:{st}:blocked@{fr}', s.blocked_report()[:6])
                return
            if r[0] == 'exc':
                if isinstance(r[1], RuntimeError) and 'Could not stop' in str(r[1]):
                    s.probe('restart-could-not-stop:' + st)
                    front_alive = old_front is not None and old_front._st is not None and old_front._st.state in ('runnable', 'blocked')
                    if not self.child_alive(kind, old_child) and not front_alive:
                        self.viol('raises-only-if-unstoppable', f'runtimeerror-but-old-child-gone:{st}')
                    unstoppable = (kind == 'pthread' and (stuck or st == 'pipe-full')) or (stuck and kwr.get('force') is False) \
                        or (c.get('fault') is not None) or (st == 'pipe-full')    # (a stalled old child / frontend may outlast the timeouts)
                    if not unstoppable:
                        self.viol('restart-succeeds', f'could-not-stop:{st}:{kind}')
                    return
                self.viol('restart-returns', f'restart-raises:{type(r[1]).__name__}:{st}', lib.safe_repr(r[1]))
                return
            s.probe('restart-returned:' + st)
            # returned: the old child must be gone, the worker alive and equivalent
            if self.child_alive(kind, old_child):
                self.viol('old-child-stopped', f'old-child-still-running-after-restart:{st}')
            if old_front is not None and old_front._st is not None and old_front._st.state in ('runnable', 'blocked'):
                self.viol('old-child-stopped', f'old-frontend-thread-still-running-after-restart:{st}')
            al = lib.timed(w.is_alive)
            if al[1] is not True:
                self.viol('live-after-restart', f'is_alive={al[1]}:{st}')
                return
            if w.name != 'wname' or w.userid != 77 or w._target is not T.p_poison or w._kwargs != {'poison': [-1], 'origin_only': [-2]}:
                self.viol('equivalent', 'name/userid/target/defaults-changed', [w.name, w.userid])
            if kind != 'pthread' and w.id == old_id:
                self.viol('new-identity', f'same-id-after-restart:{kind}')
            # fresh stream: only results of fresh inputs, counter from zero
            fresh = []
            for _ in range(2):
                uniq += 1
                try:
                    w.enqueue(uniq)
                    fresh.append(uniq)
                except Exception as e:   # noqa
                    self.viol('accepts-input', f'enqueue-after-restart-raises:{type(e).__name__}:{st}')
                    return
            got = []
            for _ in fresh:
                r = lib.call_with_deadline(w.next_result, 600.0)
                if r[0] != 'ok':
                    self.viol('fresh-stream', f'next_result-{r[0]}:{type(r[1]).__name__ if r[1] is not None else None}:{st}',
                              s.blocked_report()[:5] if r[0] == 'hung' else None)
                    return
                got.append(r[1])
            exp = [['r', x] for x in fresh]
            if got != exp:
                old = any(g in [['r', x] for x in sent] for g in got)
                self.viol('fresh-stream', f'stale-or-wrong-results:{"old-incarnation-value" if old else "other"}:{st}', {'got': got, 'exp': exp})
                return
        # final: counter counts only the last incarnation's items
        r = lib.call_with_deadline(w.wait, 600.0, timeout=10)
        if r[0] == 'ok' and r[1] is True:
            res = w.result
            if w.has_error is False and res != 2:
                self.viol('counter-from-zero', f'final-counter={res}', None)

    def obs_summary(self):
        return {'log': self.log[:12]}

    def judge(self, outcome):
        if outcome in ('hang', 'time-cap'):
            return [{'clause': 'no-hang', 'manifestation': 'workload-hang', 'detail': (self.sim.outcome_info or {}).get('blocked')}]
        seen, out = set(), []
        for v in self.V:
            k = (v['clause'], v['manifestation'])
            if k not in seen:
                seen.add(k)
                out.append(v)
        return out


def make_run(sim, case):
    return Run(sim, case)


def plan(ctx):
    rng = ctx.rng
    n = 1500 if ctx.tier != 'thorough' else 30000
    cases = []
    for i in range(n):
        cases.append(gen_case(ctx, rng, i))
        if len(cases) >= 1500:
            ctx.run(cases, 'histories')
            cases = []
            if ctx.time_left() < 0:
                break
    if cases:
        ctx.run(cases, 'histories')


def smoke_cases(ctx, n):
    return [gen_case(ctx, ctx.rng, i, tag='smoke') for i in range(n)]


def shrink(case):
    c = dict(case)
    st = c['states']
    for k in range(len(st)):
        if len(st) > 1:
            yield dict(c, states=st[:k] + st[k + 1:])
    if c.get('knobs'):
        yield dict(c, knobs={})
    if c.get('own_pipe'):
        yield dict(c, own_pipe=False)
