"""C05 - persistent workers process each enqueue exactly once, in order, with merged arguments (model-based)."""
import copy
import queue
from workloads import lib, targets as T
from workloads.probes import PLAIN
from . import common as C

ID = 'C05'
LEVEL = 'exploration'
BUDGET = {'quick': 90, 'thorough': 900}
RULE = ('Cases = persistent worker kind x default args (list or tuple, length 0-3) x default kwargs x history of <= 10 operations '
        'from {enqueue(fewer / as many / more positionals, overriding kwargs), next_result, results_iter(maxitems), call, close, '
        'wait, enqueue after close / death (also: death on its own by a failing input, not yet observed by the parent)} x caller stalled at a line of the API call x target (echo, argument-mutating echo, None-returning) x schedule; every observed '
        'value is compared with a list model computed on pristine copies of the defaults.')
ASSUMPTIONS = ['no crash faults (a slow caller, stalled at a line boundary inside an API call, is part of the schedule space); buffer sizes are drawn but outstanding data always fits (the documented full-queue deadlock is excluded)']

PKINDS = ['pthread', 'pprocess', 'premote']
ATOMS = [0, 1, 'a', None, [1], ['x', 'y'], {'k': 1}, False, '']


def gen_case(ctx, rng, i, tag='random'):
    from harness.check import draw_env
    kind = rng.choice(PKINDS)
    pol, knobs = draw_env(rng, tcp=(kind == 'premote'))
    nd = rng.randrange(0, 4)
    dargs = [copy.deepcopy(rng.choice(ATOMS)) for _ in range(nd)]
    dkw = {k: copy.deepcopy(rng.choice(ATOMS)) for k in rng.sample(['p', 'q', 'r'], rng.randrange(0, 3))}
    ops = []
    nenq = 0
    closed = False
    for _ in range(rng.randrange(2, 11)):
        r = rng.random()
        if r < 0.45 and nenq < 8:
            na = rng.choice([0, max(0, nd - 1), nd, nd + 1, nd + 2])
            ops.append(['enqueue', [copy.deepcopy(rng.choice(ATOMS)) for _ in range(na)],
                        {k: copy.deepcopy(rng.choice(ATOMS)) for k in rng.sample(['p', 'q', 's'], rng.randrange(0, 3))}])
            nenq += 1
        elif r < 0.49 and not any(o[0] in ('close', 'die') for o in ops) and rng.random() < 0.5:
            ops.append(['die'])        # an input on which the target raises: the worker dies on its own
        elif r < 0.6:
            ops.append(['next'])
        elif r < 0.7:
            ops.append(['iter', rng.randrange(1, 4)])
        elif r < 0.8:
            ops.append(['call', [copy.deepcopy(rng.choice(ATOMS)) for _ in range(rng.choice([0, nd, nd + 1]))], {}])
        elif r < 0.9:
            ops.append(['close'])
        else:
            ops.append(['wait'])
    ops.append(['wait'])
    ops.append(['enqueue', [1], {}])
    fault = None
    if rng.random() < 0.2:
        # directed family: the stream is closed with results still outstanding and the consumer is descheduled inside the very
        # next_result() / results_iter() call during which the worker produces its last result, ends the stream and exits
        ops = [['enqueue', [copy.deepcopy(rng.choice(ATOMS)) for _ in range(nd)], {}] for _ in range(rng.randrange(1, 4))]
        ops.append(['close'])
        for _ in range(rng.randrange(1, 4)):
            ops.append(rng.choice([['next'], ['iter', rng.randrange(1, 4)]]))
        ops.append(['wait'])
        ops.append(['enqueue', [1], {}])
        fault = {'kind': 'stall', 'any_thread': True, 'occ': rng.randrange(1, 9), 'duration': 1.0, 'qualname': 'PersistentWorker.next_result'}
    elif rng.random() < 0.4:
        # a slow caller: the consuming / producing caller thread is descheduled at one line boundary inside the API call, long
        # enough for the worker to make arbitrary progress (finish, deliver, exit) in between two of its statements
        fault = {'kind': 'stall', 'any_thread': True, 'occ': rng.randrange(1, 16), 'duration': rng.choice([0.2, 1.0]),
                 'qualname': rng.choice(['PersistentWorker.next_result', 'PersistentWorker.next_result', 'PersistentWorker.results_iter',
                                         'PersistentWorker.call', 'PersistentWorker.enqueue', 'PersistentWorker.close'])}
    return {'kind': kind, 'args_type': rng.choice(['list', 'list', 'tuple']), 'dargs': dargs, 'dkw': dkw,
            'target': rng.choice(['p_echo', 'p_echo', 'p_mut_echo', 'p_none']), 'ops': ops, 'fault': fault,
            'policy': pol, 'knobs': knobs, 'sched_seed': ctx.case_seed(tag, i)}


def model_value(case, eargs, ekw):
    dargs = copy.deepcopy(case['dargs'])
    dkw = copy.deepcopy(case['dkw'])
    merged = list(copy.deepcopy(eargs)) + dargs[len(eargs):]
    dkw.update(copy.deepcopy(ekw))
    if case['target'] == 'p_none':
        return None
    return [merged, dkw]


class Run:
    def __init__(self, sim, case):
        self.sim = sim
        self.case = case
        self.V = []
        self.trace = []

    def viol(self, clause, man, detail=None):
        self.V.append({'clause': clause, 'manifestation': man, 'detail': {'detail': detail, 'trace': self.trace[-12:]}})

    def call(self, fn, *a, **k):
        r = lib.call_with_deadline(fn, 600.0, *a, **k)
        return r

    def root(self):
        from pyworkers.persistent import WorkerClosedError
        s, c = self.sim, self.case
        kind = c['kind']
        host = lib.start_server().addr if kind == 'premote' else None
        dargs = copy.deepcopy(c['dargs'])
        if c['args_type'] == 'tuple':
            dargs = tuple(dargs)
        r = self.call(lib.make_worker, kind, c['target'], args=dargs, kwargs=copy.deepcopy(c['dkw']), host=host, probe=False)
        if r[0] != 'ok':
            self.viol('constructor', f'ctor-{r[0]}:{type(r[1]).__name__}')
            return
        w = r[1]
        C.install_fault(s, c.get('fault'))
        expected = []      # model: values in order of accepted enqueues
        delivered = 0
        closed = False
        dead = False
        died = False       # the target raised on a '$die' input: the worker ends by itself, after the inputs queued before
        ended = False
        for op in c['ops']:
            name = op[0]
            self.trace.append([name] + ([len(op[1])] if name in ('enqueue', 'call') else op[1:]))
            if name == 'die':
                if closed or dead or died:
                    continue
                r = self.call(w.enqueue, die='$die')
                if r[0] != 'ok':
                    self.viol('enqueue-accepted', f'enqueue-{r[0]}:{type(r[1]).__name__}')
                    return
                died = True
                # let the death complete without observing it through is_alive() / wait() / terminate()
                s.sleep(2.0)
                continue
            if name == 'enqueue':
                if died and not dead:
                    # the worker has died on its own (a while ago): the input must be refused, not silently dropped
                    r = self.call(w.enqueue, *copy.deepcopy(op[1]), **copy.deepcopy(op[2]))
                    if not (r[0] == 'exc' and isinstance(r[1], WorkerClosedError)):
                        self.viol('closed-rejects-enqueue', f'enqueue-after-own-death:{r[0]}:{type(r[1]).__name__ if r[0] == "exc" else lib.safe_repr(r[1])}')
                        return
                    continue
                r = self.call(w.enqueue, *copy.deepcopy(op[1]), **copy.deepcopy(op[2]))
                if closed or dead:
                    if not (r[0] == 'exc' and isinstance(r[1], WorkerClosedError)):
                        self.viol('closed-rejects-enqueue', f'enqueue-after-{"death" if dead else "close"}:{r[0]}:{type(r[1]).__name__}')
                else:
                    if r[0] != 'ok':
                        self.viol('enqueue-accepted', f'enqueue-{r[0]}:{type(r[1]).__name__}')
                        return
                    expected.append(model_value(c, op[1], op[2]))
            elif name == 'next':
                if delivered < len(expected):
                    r = self.call(w.next_result)
                    if not self.check_value(r, expected, delivered, 'next_result'):
                        return
                    delivered += 1
            elif name == 'iter':
                n = min(op[1], len(expected) - delivered)
                if n == 0:
                    # a consumer draining "as many as are outstanding" when nothing is: an empty, non-blocking iteration that
                    # leaves the stream untouched (the results that follow are still delivered in order to later calls)
                    r = self.call(lambda: list(w.results_iter(maxitems=0)))
                    if r[0] != 'ok' or r[1] != []:
                        self.viol('results-delivered', f'results_iter0-{r[0]}:{type(r[1]).__name__ if r[0] != "ok" else len(r[1])}',
                                  self.sim.blocked_report()[:4] if r[0] == 'hung' else None)
                        return
                if n > 0:
                    r = self.call(lambda: list(w.results_iter(maxitems=n)))
                    if r[0] != 'ok':
                        self.viol('results-delivered', f'results_iter-{r[0]}:{type(r[1]).__name__}', self.sim.blocked_report()[:4] if r[0] == 'hung' else None)
                        return
                    for v in r[1]:
                        if not self.check_value(('ok', v), expected, delivered, 'results_iter'):
                            return
                        delivered += 1
                    if len(r[1]) != n:
                        self.viol('results-delivered', 'results_iter-short')
                        return
            elif name == 'call':
                if delivered == len(expected) and not closed and not dead and not died:
                    r = self.call(w.call, *copy.deepcopy(op[1]), **copy.deepcopy(op[2]))
                    expected.append(model_value(c, op[1], op[2]))
                    if not self.check_value(r, expected, delivered, 'call'):
                        return
                    delivered += 1
            elif name == 'close':
                r = self.call(w.close)
                if r[0] != 'ok':
                    self.viol('close', f'close-{r[0]}:{type(r[1]).__name__}')
                    return
                closed = True
            elif name == 'wait':
                r = self.call(w.wait)
                if r[0] != 'ok' or r[1] is not True:
                    self.viol('wait-returns', f'wait-{r[0]}:{r[1] if r[0] == "ok" else type(r[1]).__name__}',
                              self.sim.blocked_report()[:5] if r[0] == 'hung' else None)
                    return
                closed = dead = True
                if not ended:
                    r = self.call(lambda: list(w.results_iter()))
                    if r[0] != 'ok':
                        self.viol('stream-ends', f'drain-{r[0]}:{type(r[1]).__name__}')
                        return
                    for v in r[1]:
                        if delivered >= len(expected):
                            self.viol('exactly-once', 'extra-result-delivered', lib.safe_repr(v))
                            return
                        if not self.check_value(('ok', v), expected, delivered, 'drain'):
                            return
                        delivered += 1
                    ended = True
                    if delivered != len(expected):
                        self.viol('exactly-once', 'results-missing')
                        return
                    for _ in range(2):
                        r = self.call(w.next_result)
                        if not (r[0] == 'exc' and isinstance(r[1], queue.Empty)):
                            self.viol('stream-ends', f'next_result-after-end:{r[0]}:{type(r[1]).__name__ if r[0] == "exc" else lib.safe_repr(r[1])}')
                            return
                    r4 = lib.read4(w)
                    ro = r4.pop('_result_obj', None)
                    if died:
                        if r4.get('has_error') is not True or (r4.get('error') or {}).get('type') != 'MyError':
                            self.viol('result-counts', f'final-result-after-own-death:has_error={r4.get("has_error")}:error={(r4.get("error") or {}).get("type")}', r4)
                            return
                    elif r4.get('has_error') is not False or ro != len(expected):
                        self.viol('result-counts', f'final-result:has_error={r4.get("has_error")}:result-eq-count={ro == len(expected)}', r4)
                        return
        s.probe('history-completed')

    def check_value(self, r, expected, k, how):
        if r[0] == 'hung':
            self.viol('results-delivered', f'{how}-hangs', self.sim.blocked_report()[:5])
            return False
        if r[0] == 'exc':
            self.viol('results-delivered', f'{how}-raises:{type(r[1]).__name__}')
            return False
        if r[1] != expected[k]:
            later = r[1] in expected[k + 1:] or r[1] in expected[:k]
            self.viol('value-matches-model', f'{how}:wrong-value' + (':belongs-to-other-enqueue' if later else ''),
                      {'got': lib.safe_repr(r[1]), 'expected': lib.safe_repr(expected[k]), 'k': k})
            return False
        return True

    def obs_summary(self):
        return {'trace': self.trace[:12]}

    def judge(self, outcome):
        if outcome in ('hang', 'time-cap'):
            return [{'clause': 'no-hang', 'manifestation': 'workload-hang', 'detail': (self.sim.outcome_info or {}).get('blocked')}]
        # add the cause of a dead child to the manifestation (e.g. the TypeError of tuple defaults)
        died = [d for d in self.sim.died if d[3] and (d[3].startswith('child-main') or d[3] == 'ThreadWorker._run')]
        exc = [e for e in self.sim.truth if e['kind'] == 'child-main-exception']
        for v in self.V:
            if v['clause'] in ('results-delivered', 'wait-returns', 'exactly-once', 'result-counts', 'stream-ends', 'enqueue-accepted'):
                v['detail']['child_died'] = [list(map(str, d)) for d in died][:2]
                v['detail']['child_exc'] = exc[:2]
                cause = (died[0][1] if died else (exc[0]['exc'] if exc else None))
                if cause:
                    v['manifestation'] += f':child-died-of-{cause}'
        return self.V


def make_run(sim, case):
    return Run(sim, case)


def plan(ctx):
    rng = ctx.rng
    n = 2500 if ctx.tier != 'thorough' else 50000
    cases = []
    for i in range(n):
        cases.append(gen_case(ctx, rng, i))
        if len(cases) >= 2500:
            ctx.run(cases, 'histories')
            cases = []
            if ctx.time_left() < 0:
                break
    if cases:
        ctx.run(cases, 'histories')


def smoke_cases(ctx, n):
    return [gen_case(ctx, ctx.rng, i, tag='smoke') for i in range(n)]


def shrink(case):
    c = dict(case)
    ops = c['ops']
    for k in range(len(ops)):
        yield dict(c, ops=ops[:k] + ops[k + 1:])
    if c.get('knobs'):
        yield dict(c, knobs={})
    if c.get('fault'):
        yield dict(c, fault=None)
    if c['dargs']:
        yield dict(c, dargs=c['dargs'][:-1])
    if c['dkw']:
        yield dict(c, dkw={})
    if c['target'] != 'p_echo':
        yield dict(c, target='p_echo')
