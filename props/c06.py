"""C06 - a persistent result stream is a correct prefix and always ends, whatever happens."""
import queue
from workloads import lib, targets as T
from . import common as C

ID = 'C06'
LEVEL = 'fault_enumeration'
BUDGET = {'quick': 100, 'thorough': 900}
RULE = ('Cases = persistent worker kind x 0-5 unique items x fault (terminate at a delivery point / SIGKILL / SIGTERM at a line of '
        'the child loop, poison item, child killed when the parent-side forwarding thread is at a given line) x consumer '
        '(next_result loop, results_iter, raw wait+recv multiplexer on a caller-supplied pipe as the Pool does) x schedule.')
ASSUMPTIONS = ['landing points are enumerated per worker kind from a fault-free census run']

PKINDS = ['pthread', 'pprocess', 'premote']
FRONT_ROLE = 'RemoteWorker._run_frontend'


def mk_case(ctx, kind, items, consumer, idx, fault=None, poison=(), policy=None, knobs=None, tag='', origin_only=()):
    return {'kind': kind, 'items': list(items), 'poison': list(poison), 'origin_only': list(origin_only), 'consumer': consumer, 'fault': fault,
            'policy': policy or {'kind': 'random', 'p_stay': 0.5}, 'knobs': knobs or {},
            'sched_seed': ctx.case_seed(tag, kind, consumer, idx, len(items))}


class Run:
    def __init__(self, sim, case):
        self.sim = sim
        self.case = case
        self.got = []
        self.end = None
        self.after = []
        self.info = {}
        if case.get('census'):
            C.install_census(sim, extra_roles=(FRONT_ROLE,))
        C.install_fault(sim, case.get('fault'))

    def root(self):
        from pyworkers.utils import Pipe
        from simos.mpshim import wait as mpwait
        s, c = self.sim, self.case
        kind = c['kind']
        host = lib.start_server().addr if kind == 'premote' else None
        kw = {}
        pipe = None
        if c['consumer'] == 'mux':
            pipe = Pipe()
            kw['results_pipe'] = pipe
        r = lib.call_with_deadline(lib.make_worker, 600.0, kind, 'p_poison', kwargs={'poison': c['poison'], 'origin_only': c.get('origin_only') or []}, host=host, **kw)
        if r[0] != 'ok':
            self.info['ctor'] = r[0]
            return
        w = r[1]
        s.census_mark = 1
        s.tlog('ctor-returned')
        if c.get('early') or c.get('forced'):
            # two threads use this worker (one consumes, one closes / terminates): like any careful user they do not run two control
            # operations on the same worker at once (pyworkers does not promise that the control connection of a remote worker can
            # be shared by concurrent calls); blocking on the result stream itself happens outside the lock
            from simos.sync import RLock
            L = RLock()

            def serialised(fn):
                def call(*a, **k):
                    with L:
                        return fn(*a, **k)
                return call
            for name in ('is_alive', 'terminate', 'wait', 'close'):
                setattr(w, name, serialised(getattr(w, name)))
        for x in c['items']:
            try:
                if isinstance(x, list) and x and x[0] == 'kw':
                    w.enqueue(x[1], big=x[2])      # an input that overrides a default keyword argument (its result shows it)
                    continue
                w.enqueue(x)
            except Exception as e:   # noqa
                self.info.setdefault('enqueue-exc', []).append(type(e).__name__)
        f = c.get('fault')
        fired = True
        if c.get('forced'):
            # the worker is stuck in its last input; a consumer thread is already blocked on the stream when the caller stops the
            # worker by force (the child is killed: whoever reports its death, the stream must end for the blocked consumer too)
            from simos.sync import Thread as SimThread
            th = SimThread(target=self._consume, args=(w,))
            th.start()
            s.sleep(c['forced'])
            s.fault('forced-terminate-with-blocked-consumer')
            r = lib.call_with_deadline(w.terminate, 600.0, timeout=0.3, force=True)
            self.info['terminate'] = r[0]
            th.join(700.0)
            if th.is_alive() and not self.end:
                self.end = ['hung', None]
                self.info['blocked'] = s.blocked_report()[:6]
                return
            self._after(w)
            return
        early = None
        if c.get('early'):
            # the consumer is already reading (possibly blocked on the stream) when the fault / terminate / close happens
            from simos.sync import Thread as SimThread
            early = SimThread(target=self._consume, args=(w,))
            early.start()
        if f:
            fired = s.gate_wait('fault', timeout=10.0)
            self.info['fault-fired'] = fired
        if f and f['kind'] == 'terminate' and fired:
            r = lib.call_with_deadline(w.terminate, 60.0, timeout=1, force=False)
            self.info['terminate'] = r[0]
        elif f and fired:
            pass
        else:
            try:
                w.close()
            except Exception as e:   # noqa
                self.info['close-exc'] = type(e).__name__
        if early is not None:
            early.join(700.0)
            if early.is_alive() and not self.end:
                self.end = ['hung', None]
                self.info['blocked'] = s.blocked_report()[:6]
        else:
            self._consume(w)
        if self.end and self.end[0] == 'hung':
            return
        self._after(w)

    def _consume(self, w):
        from simos.mpshim import wait as mpwait
        s, c = self.sim, self.case
        cons = c['consumer']
        if cons == 'next':
            while True:
                r = lib.call_with_deadline(w.next_result, 600.0)
                if r[0] == 'ok':
                    self.got.append(r[1])
                    continue
                self.end = [r[0], type(r[1]).__name__ if r[1] is not None else None]
                break
        elif cons == 'iter':
            it = w.results_iter()
            while True:
                r = lib.call_with_deadline(lambda: next(it), 600.0)
                if r[0] == 'ok':
                    self.got.append(r[1])
                    continue
                self.end = [r[0], type(r[1]).__name__ if r[1] is not None else None]
                break
        else:
            ep = w.results_endpoint
            while True:
                r = lib.call_with_deadline(lambda: mpwait([ep]), 600.0)
                if r[0] != 'ok':
                    self.end = ['wait-' + r[0], type(r[1]).__name__ if r[1] is not None else None]
                    break
                r = lib.call_with_deadline(ep.recv, 600.0)
                if r[0] == 'exc' and isinstance(r[1], EOFError):
                    self.end = ['eof', None]
                    break
                if r[0] != 'ok':
                    self.end = ['recv-' + r[0], type(r[1]).__name__ if r[1] is not None else None]
                    break
                msg = r[1]
                if not (isinstance(msg, tuple) and len(msg) == 4):
                    self.end = ['garbage', lib.safe_repr(msg)]
                    break
                cnt, flag, val, wid = msg
                if not flag:
                    self.end = ['marker', None]
                    break
                self.got.append(val)
        if self.end and self.end[0] == 'hung':
            self.info['blocked'] = s.blocked_report()[:6]

    def _after(self, w):
        s, c = self.sim, self.case
        cons = c['consumer']
        # after the end of the stream, once the worker is observed dead, the stream stays ended and never blocks
        r = lib.call_with_deadline(w.wait, 600.0, timeout=5)
        self.info['wait'] = [r[0], r[1] if r[0] == 'ok' else type(r[1]).__name__]
        if r[0] == 'ok' and r[1] is True and cons in ('next', 'iter'):
            for _ in range(2):
                r = lib.call_with_deadline(w.next_result, 600.0)
                self.after.append([r[0], type(r[1]).__name__ if r[0] == 'exc' else lib.safe_repr(r[1])])
            r = lib.call_with_deadline(lambda: list(w.results_iter()), 600.0)
            self.after.append(['iter-' + r[0], lib.safe_repr(r[1])])

    def obs_summary(self):
        d = {'got': self.got[:8], 'end': self.end, 'after': self.after, 'info': {k: v for k, v in self.info.items() if k != 'blocked'}}
        if self.case.get('census'):
            d['census'] = C.census_points(self.sim.census)
            d['census_dp'] = C.census_points(self.sim.census_dp)
            d['roles'] = {t.name: t.role for t in self.sim.threads}
        return d

    def judge(self, outcome):
        s, c = self.sim, self.case
        V = []
        if outcome == 'caller-killed':
            return []       # the calling process signalled itself (known C04 finding, judged there): nothing can be said about the stream
        if outcome in ('hang', 'time-cap'):
            return [{'clause': 'stream-ends', 'manifestation': 'workload-hang', 'detail': (s.outcome_info or {}).get('blocked')}]
        if self.info.get('ctor'):
            return V
        expected = []
        for x in c['items']:
            if isinstance(x, list) and x and x[0] == 'kw':
                expected.append([x[1], 'r' * x[2]])
                continue
            if x in c['poison'] or x in (c.get('origin_only') or []) or isinstance(x, dict):
                break       # (a result the parent cannot rebuild ends the stream of a remote worker like a failure does)
            expected.append(['r', x])
        got = self.got
        cons = c['consumer']
        if got != expected[:len(got)]:
            kind = 'duplicate' if any(got.count(g) > 1 for g in got) else ('reordered' if sorted(map(str, got)) == sorted(map(str, expected[:len(got)])) else 'foreign-or-corrupt')
            V.append({'clause': 'correct-prefix', 'manifestation': f'{cons}:not-a-prefix:{kind}', 'detail': {'got': got, 'expected': expected}})
        if not c.get('fault') and not c.get('forced') and not self.info.get('enqueue-exc') and len(got) != len(expected):
            V.append({'clause': 'correct-prefix', 'manifestation': f'{cons}:fault-free-run-lost-results', 'detail': {'got': got, 'expected': expected}})
        end = self.end or ['none', None]
        cause = C.cause(s)
        if cons == 'next':
            ok = end == ['exc', 'Empty']
        elif cons == 'iter':
            ok = end == ['exc', 'StopIteration']
        else:
            ok = end[0] in ('marker', 'eof')
        if not ok:
            fr = ''
            if end[0] == 'hung' or end[0].endswith('hung'):
                bl = [b for b in self.info.get('blocked', []) if b['role'].startswith('call_with_deadline')]
                fr = ':blocked@' + (bl[0]['frames'][0].split(':')[0] if bl and bl[0]['frames'] else '?')
            V.append({'clause': 'stream-ends', 'manifestation': f'{cons}:end={end[0]}:{end[1]}{fr}:{cause}',
                      'detail': {'end': end, 'got': got, 'blocked': self.info.get('blocked')}})
        for a in self.after:
            if a[0] == 'hung' or a[0] == 'iter-hung':
                V.append({'clause': 'stays-ended', 'manifestation': f'{cons}:blocks-after-death', 'detail': self.after})
            elif a[0] == 'ok':
                V.append({'clause': 'stays-ended', 'manifestation': f'{cons}:value-after-end', 'detail': self.after})
            elif a[0] == 'exc' and a[1] != 'Empty':
                V.append({'clause': 'stays-ended', 'manifestation': f'{cons}:raises-after-end:{a[1]}', 'detail': self.after})
            elif a[0] == 'iter-ok' and a[1] != '[]':
                V.append({'clause': 'stays-ended', 'manifestation': f'{cons}:iter-yields-after-end', 'detail': self.after})
        seen, out = set(), []
        for v in V:
            k = (v['clause'], v['manifestation'])
            if k not in seen:
                seen.add(k)
                out.append(v)
        return out


def make_run(sim, case):
    return Run(sim, case)


def plan(ctx):
    rng = ctx.rng
    quick = ctx.tier != 'thorough'
    from harness.check import draw_env
    census = []
    for kind in PKINDS:
        for n in (0, 2):
            c = mk_case(ctx, kind, list(range(10, 10 + n)), 'next', n, policy={'kind': 'cooperative'}, tag='census')
            c['census'] = True
            census.append(c)
    res = ctx.run(census, 'census')
    pts = {}
    for c, r in zip(census, res):
        o = r.get('obs') or {}
        roles = o.get('roles') or {}
        for tname in sorted(set(o.get('census') or {}) | set(o.get('census_dp') or {})):
            pts.setdefault((c['kind'], len(c['items'])), []).append(
                (tname, roles.get(tname), (o.get('census') or {}).get(tname, []), (o.get('census_dp') or {}).get(tname, [])))
    cases = []
    total = 0

    def uniq(points):
        u, seen = [], set()
        for qn, ln, occ, idx, pk in points:
            if occ > 2:
                continue
            k = (qn, ln, occ, pk)
            if k not in seen:
                seen.add(k)
                u.append(k)
        return u

    for (kind, n), lst in sorted(pts.items()):
        items = list(range(10, 10 + n))
        for tname, role, lpts, dpts in lst:
            if role == FRONT_ROLE:
                fam = [('sigkill', uniq([p for p in lpts if 'fetch_results' in p[0] or p[0] in ('recv_msg',)]), 'victim')]
            else:
                fam = [('terminate', uniq(dpts), None)]
                if kind != 'pthread':
                    fam += [('sigkill', uniq(lpts), None), ('sigterm', uniq(lpts), None)]
            for fk, up, target in fam:
                total += len(up)
                sel = up
                if quick:
                    byfn = {}
                    for k in up:
                        byfn.setdefault(k[0], []).append(k)
                    sel = []
                    for qn in sorted(byfn, key=str):
                        cand = byfn[qn]
                        rng.shuffle(cand)
                        sel.extend(cand[:2])
                for (qn, ln, occ, pk) in sel:
                    fault = {'kind': fk, 'thread': tname, 'qualname': qn, 'line': ln, 'occ': occ}
                    if fk == 'terminate':
                        fault['dpkind'] = pk
                    if target:
                        fault['target'] = target
                    for cons in (['next', 'iter', 'mux'] if not quick else [rng.choice(['next', 'iter', 'mux'])]):
                        cases.append(mk_case(ctx, kind, items, cons, len(cases), fault=fault,
                                             policy={'kind': 'directed', 'p_stay': rng.choice([0.0, 0.5, 0.9])}, tag='enum'))
    ctx.exhaustive_info = {'space': 'delivery points / line boundaries of the child loop and lines of the forwarding thread, per kind, '
                                    'for 0 and 2 queued items', 'points': total, 'cases': len(cases), 'complete': not quick}
    ctx.run(cases, 'enumerated')
    n = 1500 if quick else 30000
    rc = []
    for i in range(n):
        kind = rng.choice(PKINDS)
        ni = rng.randrange(0, 6)
        items = rng.sample(range(100), ni)
        poison = [rng.choice(items)] if items and rng.random() < 0.3 else []
        # remote kind: one result that cannot be rebuilt in the parent (class of the child's main script, failing __setstate__)
        unb = [rng.choice(items)] if items and kind == 'premote' and rng.random() < 0.25 else []
        pol, knobs = draw_env(rng, tcp=(kind == 'premote'), adversarial_ok=True)
        fault = None
        r = rng.random()
        lst = pts.get((kind, 2)) or []
        if r < 0.7 and lst:
            tname, role, lpts, dpts = lst[0]
            fk = rng.choice(['terminate'] if kind == 'pthread' else ['terminate', 'sigkill', 'sigterm'])
            scale = 1 + ni // 2
            if fk == 'terminate' and dpts:
                fault = {'kind': fk, 'thread': tname, 'ndp': rng.randrange(1, dpts[-1][3] * scale + 5)}
            elif lpts:
                fault = {'kind': fk, 'thread': tname, 'nline': rng.randrange(1, lpts[-1][3] * scale + 5)}
        cs = mk_case(ctx, kind, items, rng.choice(['next', 'iter', 'mux']), i, fault=fault, poison=poison, policy=pol, knobs=knobs, tag='random', origin_only=unb)
        if rng.random() < 0.3:
            cs['early'] = True
        if cs['items'] and rng.random() < 0.2:
            # inputs of mixed shape: some override a default keyword argument, the ones after them do not
            cs['items'] = [['kw', x, rng.randrange(1, 6)] if (x not in poison and x not in unb and rng.random() < 0.4) else x for x in cs['items']]
        if kind != 'pthread' and rng.random() < 0.12:
            cs['early'] = False
            cs['fault'] = None
            cs['items'] = list(items) + [{'$swallow': True}]
            cs['forced'] = rng.choice([0.05, 0.3, 1.0])
        rc.append(cs)
        if len(rc) >= 2000:
            ctx.run(rc, 'random')
            rc = []
            if ctx.time_left() < 0:
                break
    if rc:
        ctx.run(rc, 'random')


def smoke_cases(ctx, n):
    from harness.check import draw_env
    rng = ctx.rng
    out = []
    for i in range(n):
        kind = rng.choice(PKINDS)
        items = rng.sample(range(100), rng.randrange(0, 5))
        pol, knobs = draw_env(rng, tcp=(kind == 'premote'), adversarial_ok=True)
        fault = None
        if kind != 'pthread' and rng.random() < 0.5:
            fault = {'kind': 'sigkill', 'role': None, 'thread': None, 'nline': rng.randrange(10, 200)}
        out.append(mk_case(ctx, kind, items, rng.choice(['next', 'iter', 'mux']), i, fault=fault, policy=pol, knobs=knobs, tag='smoke'))
    return out


def shrink(case):
    c = dict(case)
    for k in range(len(c['items'])):
        yield dict(c, items=c['items'][:k] + c['items'][k + 1:])
    if c.get('knobs'):
        yield dict(c, knobs={})
