"""C04 - wait/terminate are bounded, truthful, idempotent - even on unresponsive children."""
from workloads import lib, targets as T
from workloads.probes import KINDS, PLAIN
from . import common as C

ID = 'C04'
LEVEL = 'exploration'
BUDGET = {'quick': 90, 'thorough': 900}
RULE = ('Cases = worker class x target behaviour (cooperative loop, swallows every Exception, 1000 s sleep, interpreter lock held '
        'by C code, SIGSTOPped, already finished, never run) x history of 1-4 calls from {wait(t), terminate(t, force), '
        'is_alive(), close()} with t in {0, 0.05, 1} x clock mode x (remote kinds) control connection failing with ETIMEDOUT / EHOSTUNREACH / ECONNRESET '
        'while the caller is blocked in a round trip x schedule.')
ASSUMPTIONS = ['time bound evaluated on the simulated clock: elapsed <= 5 * sum(timeouts passed) + 2 s',
               'force=True is never used on thread kinds (it kills the calling process by design)']

BEHAVIOURS = ['coop', 'swallow', 'sleep', 'gilhold', 'sigstop', 'finished', 'notrun', 'short', 'short', 'linger']
TARGET_OF = {'coop': ('t_loop', {'n': 100000, 'd': 0.01}), 'swallow': ('t_swallow', {}), 'sleep': ('t_sleep', {'d': 1000.0}),
             'gilhold': ('t_gilhold', {}), 'sigstop': ('t_sigstop', {}), 'finished': ('t_return', {'v': 1}),
             'notrun': ('t_return', {'v': 1}), 'short': ('t_loop', {'n': 10, 'd': 0.01}),
             'linger': ('t_linger', {'d': 1000.0})}
PTARGET_OF = {'coop': ('p_slow', {'d': 0.05}), 'swallow': ('p_swallow', {}), 'sleep': ('p_slow', {'d': 1000.0}),
              'finished': ('p_square', {}), 'notrun': ('p_square', {}), 'short': ('p_slow', {'d': 0.02}),
              'unb-swallow': ('p_poison', {'origin_only': [1]})}


def gen_case(ctx, rng, i, tag='random'):
    from harness.check import draw_env
    kind = rng.choice(KINDS)
    thread_kind = lib.base_kind(kind) == 'thread'
    beh = rng.choice(BEHAVIOURS)
    if thread_kind and beh in ('gilhold', 'sigstop', 'linger'):
        beh = rng.choice(['coop', 'swallow', 'sleep'])
    if lib.is_persistent(kind) and beh in ('gilhold', 'sigstop', 'linger'):
        # ('unb-swallow': the worker has returned a value its parent cannot rebuild - for a remote worker the result stream is given
        #  up and the data connection reset from the parent side - and is now stuck in the next input)
        beh = rng.choice(['coop', 'swallow', 'sleep', 'finished', 'unb-swallow'])
    pol, knobs = draw_env(rng, tcp=lib.is_remote(kind), adversarial_ok=True)
    ops = []
    for _ in range(rng.randrange(1, 5)):
        op = rng.choice(['wait', 'terminate', 'terminate', 'is_alive', 'close'])
        if op == 'wait':
            ops.append(['wait', {'timeout': rng.choice([0, 0.05, 1])}])
        elif op == 'terminate':
            kw = {'timeout': rng.choice([0, 0.05, 1])}
            if thread_kind:
                kw['force'] = False
            else:
                kw['force'] = rng.choice([True, True, False])
            if lib.is_remote(kind) and rng.random() < 0.3:
                # the separate bound for the graceful phase on the remote side (None: same as timeout; never more than timeout)
                kw['remote_timeout'] = rng.choice([0, 0.05, None, 3])
            ops.append(['terminate', kw])
        else:
            ops.append([op, {}])
    net = None
    if lib.is_remote(kind) and beh in ('coop', 'swallow', 'sleep') and rng.random() < 0.2:
        # the control connection fails without FIN / RST (keep-alive expiry, unreachable host) while the caller is blocked in
        # the middle of a wait() / terminate() / is_alive() round trip
        net = rng.choice(['ETIMEDOUT', 'EHOSTUNREACH', 'ECONNRESET'])
    return {'kind': kind, 'behaviour': beh, 'ops': ops, 'items': rng.randrange(0, 3), 'policy': pol, 'knobs': knobs, 'net_fault': net,
            'settle': rng.choice([0.05, 0.1, 0.11, 0.12, 0.15, 0.3]),
            'sched_seed': ctx.case_seed(tag, i)}


class Run:
    def __init__(self, sim, case):
        self.sim = sim
        self.case = case
        self.hist = []
        self.info = {}
        if case.get('fault'):
            C.install_fault(sim, case['fault'])

    def child_gone(self, w, kind):
        if lib.base_kind(kind) == 'thread':
            ch = getattr(w, '_child', None)
            return (not w._started) or ch is None or ch._st is None or ch._st.state == 'done'
        if not w._started:
            return True
        p = lib.child_proc_of(w)
        if p is None or p is self.sim.root_proc:
            return None
        return not p.alive

    def root(self):
        s, c = self.sim, self.case
        kind, beh = c['kind'], c['behaviour']
        host = lib.start_server().addr if lib.is_remote(kind) else None
        fn, kw = (PTARGET_OF if lib.is_persistent(kind) else TARGET_OF)[beh]
        extra = {}
        if beh == 'notrun':
            extra['run'] = False
        st = lib.call_with_deadline(lib.make_worker, 600.0, kind, fn, kwargs=dict(kw), host=host, probe=False, **extra)
        if st[0] != 'ok':
            self.info['ctor'] = [st[0], lib.safe_repr(st[1])]
            return
        w = st[1]
        if beh == 'unb-swallow':
            try:
                w.enqueue(1)
                w.enqueue({'$swallow': True})
            except Exception:
                pass
        elif lib.is_persistent(kind) and beh not in ('notrun',):
            for x in range(c['items'] if beh != 'finished' else 1):
                try:
                    w.enqueue(x + 1)
                except Exception:
                    pass
        if beh == 'finished':
            r = lib.call_with_deadline(w.wait, 600.0)
            self.info['prewait'] = r[0]
            if r[0] != 'ok' or r[1] is not True:
                return
        elif beh == 'short':
            s.sleep(c.get('settle', 0.1))   # the child finishes on its own around now; the parent has not observed it yet
        elif beh not in ('notrun',):
            s.sleep(0.3)       # let the target get going (enter its loop / sleep / C call)
        self.info['dead_before'] = beh in ('finished', 'notrun')
        if c.get('net_fault'):
            import errno
            st_ = {'armed': True}

            def hook(sim, t, what):
                if st_['armed'] and str(what).startswith('recv:') and str(t.role).startswith('call_with_deadline'):
                    st_['armed'] = False
                    e = getattr(errno, c['net_fault'])

                    def fire():
                        n = lib.break_connections(w, e, which=('_ctrl_sock',))
                        self.info['net_fault_fired'] = [n, len(self.hist)]
                        sim.tlog('net-fault')
                    sim.add_timer(sim.now + c.get('net_delay', 0.002), fire)
            s.block_hooks.append(hook)
        for op, kw in c['ops']:
            tsum = kw.get('timeout', 0)
            bound = 5 * tsum + 2.0
            t0 = s.now
            r = lib.call_with_deadline(getattr(w, op), bound * 3 + 30.0, **kw)
            el = s.now - t0
            alive_after = None
            if op in ('wait', 'terminate') and r[0] == 'ok' and r[1] is True:
                alive_after = lib.timed(w.is_alive)[1]       # "the return value says whether the worker is dead at that moment"
            rec = {'op': op, 'kw': kw, 'status': r[0], 'elapsed': round(el, 4), 'bound': bound, 'alive_after': alive_after,
                   'value': r[1] if r[0] == 'ok' and isinstance(r[1], (bool, type(None))) else (type(r[1]).__name__ if r[1] is not None else None),
                   'child_gone': self.child_gone(w, kind), 'adversarial': s.clock_mode == 'adversarial'}
            if r[0] == 'hung':
                rec['blocked'] = [b for b in s.blocked_report() if b['role'].startswith('call_with_deadline')][:2]
            self.hist.append(rec)
            if r[0] == 'hung':
                break

    def obs_summary(self):
        return {'info': self.info, 'hist': self.hist}

    def judge(self, outcome):
        s, c = self.sim, self.case
        V = []
        kind, beh = c['kind'], c['behaviour']
        if not s.root_proc.alive or outcome == 'caller-killed':
            ks = [r for r in s.log if r[0] == 'os.kill' and r[2] == 'root']
            op = self.case['ops'][len(self.hist)] if len(self.hist) < len(self.case['ops']) else ['?', {}]
            V.append({'clause': 'returns-normally', 'manifestation': f'{op[0]}-kills-the-calling-process:timeout={op[1].get("timeout")}',
                      'detail': {'op': op, 'kill': [list(map(str, k)) for k in ks[:2]]}})
            return V
        if outcome in ('hang', 'time-cap'):
            V.append({'clause': 'bounded', 'manifestation': 'workload-hang', 'detail': (s.outcome_info or {}).get('blocked')})
            return V
        dead_before = self.info.get('dead_before')
        was_true = False
        for i, h in enumerate(self.hist):
            op = h['op']
            if op not in ('wait', 'terminate', 'is_alive', 'close'):
                continue
            if h['status'] == 'hung':
                fr = h['blocked'][0]['frames'][0].split(':')[0] if h.get('blocked') and h['blocked'][0]['frames'] else '?'
                V.append({'clause': 'bounded', 'manifestation': f'{op}-never-returns:{beh}:blocked@{fr}', 'detail': h})
                break
            if h['status'] == 'exc':
                V.append({'clause': 'returns-normally', 'manifestation': f'{op}-raises:{h["value"]}:{beh}', 'detail': h})
                continue
            partitioned = bool(self.info.get('net_fault_fired')) and self.info['net_fault_fired'][0] and i >= self.info['net_fault_fired'][1]
            if partitioned:
                # the parent cannot know the state of a child it cannot reach: only "returns normally, in time" is checked
                if op in ('wait', 'terminate') and h['elapsed'] > h['bound'] and not h['adversarial']:
                    V.append({'clause': 'bounded', 'manifestation': f'{op}-slow:{beh}:after-net-fault', 'detail': h})
                continue
            if op in ('wait', 'terminate'):
                if h['elapsed'] > h['bound'] and not h['adversarial']:
                    V.append({'clause': 'bounded', 'manifestation': f'{op}-slow:{beh}', 'detail': h})
                if h['value'] is True and h['child_gone'] is False:
                    V.append({'clause': 'truthful', 'manifestation': f'{op}-true-but-child-alive:{beh}', 'detail': h})
                if h['value'] is True and h.get('alive_after') is not False:
                    V.append({'clause': 'truthful', 'manifestation': f'{op}-true-but-is_alive-says-{h.get("alive_after")}', 'detail': h})
                if (dead_before or was_true):
                    if h['value'] is not True:
                        V.append({'clause': 'idempotent-on-dead', 'manifestation': f'{op}-not-true-on-dead:{"notrun" if beh == "notrun" else "dead"}', 'detail': h})
                    elif h['elapsed'] > 0.05 and not h['adversarial']:
                        V.append({'clause': 'idempotent-on-dead', 'manifestation': f'{op}-not-at-once-on-dead', 'detail': h})
                if op == 'terminate' and h['kw'].get('force') is True and lib.base_kind(kind) != 'thread' and not h['adversarial']:
                    if h['value'] is not True or h['child_gone'] is False:
                        V.append({'clause': 'force-kills', 'manifestation': f'forced-terminate-left-child:{beh}:value={h["value"]}', 'detail': h})
                if h['value'] is True:
                    was_true = True
            if op == 'is_alive' and (dead_before or was_true) and h['value'] is not False:
                V.append({'clause': 'idempotent-on-dead', 'manifestation': 'is_alive-true-on-dead', 'detail': h})
            if op == 'is_alive' and h['value'] is False:
                was_true = True
                if h['child_gone'] is False:
                    V.append({'clause': 'truthful', 'manifestation': f'is_alive-false-but-child-alive:{beh}', 'detail': h})
        seen, out = set(), []
        for v in V:
            k = (v['clause'], v['manifestation'])
            if k not in seen:
                seen.add(k)
                out.append(v)
        return out


def make_run(sim, case):
    return Run(sim, case)


def directed_cases(ctx, rng):
    out = []
    # (a) a thread worker that finishes by itself while the caller of terminate() is descheduled at the k-th line of terminate()
    #     (after it has seen the worker alive, before it raises the exception in a thread that no longer exists)
    for k in range(1, 9):
        for settle in (0.02, 0.08):
            out.append({'kind': 'thread', 'behaviour': 'short', 'ops': [['terminate', {'timeout': 1, 'force': False}], ['is_alive', {}]], 'items': 0,
                        'policy': {'kind': 'random', 'p_stay': 0.9}, 'knobs': {}, 'net_fault': None, 'settle': settle,
                        'fault': {'kind': 'stall', 'any_thread': True, 'qualname': 'ThreadWorker.terminate', 'occ': k, 'duration': 0.5},
                        'sched_seed': ctx.case_seed('terminate-vs-finish', k, settle)})
    # (b) the control connection of a remote worker failing at a range of instants after the caller has sent its request:
    #     before the answer, between the answer and the final release message, after it
    for kind in ('remote', 'premote'):
        for op in ('terminate', 'wait', 'is_alive'):
            for beh in ('coop', 'swallow'):
                for d in (0.0002, 0.0005, 0.001, 0.002, 0.004, 0.008, 0.02, 0.1, 0.6, 1.2):
                    kw = {} if op == 'is_alive' else ({'timeout': 1} if op == 'wait' else {'timeout': 1, 'force': rng.choice([True, False])})
                    out.append({'kind': kind, 'behaviour': beh, 'ops': [[op, kw], ['is_alive', {}]], 'items': 1, 'policy': {'kind': 'random', 'p_stay': 0.9},
                                'knobs': {}, 'net_fault': rng.choice(['ETIMEDOUT', 'ECONNRESET']), 'net_delay': d, 'settle': 0.1,
                                'sched_seed': ctx.case_seed('ctrl-failure-at', kind, op, beh, d)})
    return out


def plan(ctx):
    rng = ctx.rng
    n = 2500 if ctx.tier != 'thorough' else 60000
    ctx.run(directed_cases(ctx, rng), 'directed')
    cases = []
    for i in range(n):
        cases.append(gen_case(ctx, rng, i))
        if len(cases) >= 2500:
            ctx.run(cases, 'histories')
            cases = []
            if ctx.time_left() < 0:
                break
    if cases:
        ctx.run(cases, 'histories')


def smoke_cases(ctx, n):
    return [gen_case(ctx, ctx.rng, i, tag='smoke') for i in range(n)]


def shrink(case):
    c = dict(case)
    ops = c['ops']
    for k in range(len(ops)):
        if len(ops) > 1:
            yield dict(c, ops=ops[:k] + ops[k + 1:])
    if c.get('knobs'):
        yield dict(c, knobs={})
    if c.get('items'):
        yield dict(c, items=0)
