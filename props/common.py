"""Shared pieces of the property modules: census, directed fault installation, victim identification."""
import signal
from simos import core
from simos.shims import sim_kill
from workloads import lib

VICTIM_ROLES = ('ThreadWorker._run', 'child-main:ProcessWorker._run', 'child-main:RemoteWorker._run_backend')
WTE = 'WorkerTerminatedError'


def server_procs(sim):
    sp = getattr(sim, 'server_pids', ())
    return [sim.procs[p] for p in sp if p in sim.procs]


def is_victim(sim, t):
    if t.role not in VICTIM_ROLES:
        return False
    if getattr(t.proc, 'tag', None) == 'server':
        return False
    return t.proc.pid not in getattr(sim, 'server_pids', ())


def victims(sim):
    return [t for t in sim.threads if is_victim(sim, t)]


def install_census(sim, roles=None, extra_roles=()):
    """record every line event and every asynchronous-exception delivery point of victim threads
    (and of threads whose role is in extra_roles)"""
    sim.census = {}
    sim.census_dp = {}
    sim.census_mark = 0
    reported = set()      # victim threads that have told their parent that they are up (the constructor may return from then on)

    def mark_of(t, code, line):
        # Points count as "after the constructor returned" (mark >= 1) as soon as they *can* be: in the census schedule the child
        # may well race ahead of its parent's constructor, under another schedule the same point is reached after it - a fault
        # aimed there holds the child until the parent's request is pending.  The earliest such point is the statement after the
        # child's start-up report.
        if sim.census_mark or t.name in reported:
            return max(sim.census_mark, 1)
        if code.co_qualname in RUN_LOOPS:
            import linecache
            src = linecache.getline(code.co_filename, line)
            if any(m in src for m in _STARTUP_REPORTED):
                reported.add(t.name)
        return sim.census_mark

    def hook(t, code, line):
        if t.role in extra_roles or is_victim(sim, t):
            sim.census.setdefault(t.name, []).append((t.nline, code.co_qualname, line, mark_of(t, code, line)))

    def dphook(t, kind, code, line):
        if t.role in extra_roles or is_victim(sim, t):
            m = max(sim.census_mark, 1) if (sim.census_mark or t.name in reported) else 0
            sim.census_dp.setdefault(t.name, []).append((t.ndp, code.co_qualname if code is not None else None, line, m, kind))
    sim.line_hook = hook
    sim.dp_hook = dphook
    sim.dp_active = True


def census_points(census, after_mark=1):
    """-> {thread: [(qualname, line, occurrence, index, kind)]} in execution order, only events after the mark"""
    out = {}
    for name, evs in census.items():
        seen = {}
        pts = []
        for ev in evs:
            idx, qn, ln, mark = ev[:4]
            kind = ev[4] if len(ev) > 4 else 'line'
            k = (qn, ln, kind)
            seen[k] = seen.get(k, 0) + 1
            if mark >= after_mark:
                pts.append((qn, ln, seen[k], idx, kind))
        out[name] = pts
    return out


def install_fault(sim, fault):
    """fault: {'kind': 'terminate'|'sigkill'|'sigterm'|'sigstop', 'thread': name, 'qualname', 'line', 'occ'} or with 'nline',
    or {'on_block': prefix, 'occ': n}.  'terminate' opens gate 'fault' and holds the victim until the asynchronous
    exception is pending on it; kill kinds act on the victim's process at once."""
    if not fault:
        return
    kind = fault['kind']

    def action(sim, t, code=None, line=None):
        sim.probe('fault-fired:' + kind)
        sim.fault(kind + '@point')
        sim.tlog('fault', fault=kind, victim=t.name, at=[code.co_qualname if code else None, line])
        if kind == 'terminate':
            sim.hold(t)
            sim.gate_open('fault')
        elif kind in ('sigkill', 'sigterm'):
            target = t.proc
            if fault.get('target') == 'victim':
                vs = [v for v in victims(sim) if v.proc.alive and v.proc is not sim.root_proc]
                if not vs:
                    return
                target = vs[fault.get('target_index', -1) % len(vs)].proc
            if str(fault.get('target', '')).startswith('frame-local:'):
                # kill the process of the worker object bound to a local variable of the triggering frame
                import sys as _sys
                var = fault['target'].split(':', 1)[1]
                f = _sys._getframe(1)
                target = None
                while f is not None:
                    if f.f_code.co_qualname == fault.get('qualname') and var in f.f_locals:
                        w = f.f_locals[var]
                        pr = sim.procs.get(getattr(w, 'pid', None))
                        if pr is not None and pr is not sim.root_proc and pr.alive:
                            target = pr
                        break
                    f = f.f_back
                if target is None:
                    return
            if fault.get('target') == 'server':
                sp = server_procs(sim)
                if sp:
                    target = sp[0]
            sig = signal.SIGKILL if kind == 'sigkill' else signal.SIGTERM
            sim.gate_open('fault')
            if target is sim.root_proc:
                return
            sim_kill(target.pid, sig)
        elif kind == 'sigstop':
            sim.gate_open('fault')
            sim.stop_proc(t.proc)
        elif kind == 'stopcont':
            # the whole process of the triggering thread is stopped (SIGSTOP) and continued a little later: every blocking
            # system call of the process is interrupted, nothing else happens to it
            p = t.proc
            sim.stop_proc(p)
            sim.add_timer(sim.now + fault.get('duration', 0.05), lambda: sim.cont_proc(p))
        elif kind == 'gate':
            if fault.get('hold'):
                # the triggering thread stays exactly here until a signal is pending on its process (or the hold budget expires)
                sim.hold(t)
            sim.gate_open('fault')
        elif kind == 'stall':
            # the triggering thread is descheduled for a while (slow node / slow link)
            t.stall_until = sim.now + fault.get('duration', 2.0)
            sim.ev('stall', t.name, fault.get('duration', 2.0))
        else:
            raise ValueError(kind)

    if 'on_block' in fault:
        st = {'n': 0}

        def bh(sim, t, what):
            if fault.get('thread') and t.name != fault['thread']:
                return
            if fault.get('role') is not None:
                if t.role != fault['role']:
                    return
            elif fault.get('thread') is None and not is_victim(sim, t):
                return
            if fault.get('proc_tag') is not None and getattr(t.proc, 'tag', None) != fault['proc_tag']:
                return
            if what and str(what).startswith(fault['on_block']):
                st['n'] += 1
                if st['n'] == fault.get('occ', 1):
                    sim.block_hooks.remove(bh)
                    sim.fired = True
                    action(sim, t)
        sim.block_hooks.append(bh)
        return
    at = fault.get('at', 'dp' if kind == 'terminate' else 'line')
    pred = None
    if fault.get('thread') is None and fault.get('role') is None and fault.get('any_thread') is not True:
        pred = lambda t: is_victim(sim, t)     # noqa
    if fault.get('victim_index') is not None and fault.get('thread') is None:
        vi = fault['victim_index']
        pred = lambda t: is_victim(sim, t) and [v for v in victims(sim)].index(t) == vi     # noqa
    sim.add_trigger(thread=fault.get('thread'), nline=fault.get('nline'), ndp=fault.get('ndp'), at=at, role=fault.get('role'), pred=pred,
                    qualname=fault.get('qualname'), line=fault.get('line'), dpkind=fault.get('dpkind'),
                    occurrence=fault.get('occ', 1), action=action, label=kind)


def caller_killed_by_other(sim):
    """when the calling (root) process was killed by a signal another process of the system under test sent - a server or a
    helper process signalling a pid that is not its child's -> description of the sender, else None (a caller that signals itself
    is the known C04 finding and is judged there)"""
    k = getattr(sim.root_proc, 'last_signal_from', None)
    if sim.root_proc.alive or not k or k['same_proc']:
        return None
    return k


def kills_seen(sim):
    """process names that received a killing signal (from the event log)"""
    out = set()
    for r in sim.log:
        if r[0] == 'kill':
            out.add(r[1])
    return out


def landed_exc_types(sim, thread_names=None):
    return {l['exc'] for l in sim.landings if thread_names is None or l['thread'] in thread_names}


_AST = {}
# source fragments of the statement with which each kind of child tells its parent that it is up
_STARTUP_REPORTED = ('self._startup_sync.set()', 'self._comms.child_end.put((self._pid, self._tid, self._ident))',
                     'self._comms.child_end.send((self._host, self._pid, self._tid, self._ident))')
RUN_LOOPS = ('ThreadWorker._run', 'ProcessWorker._run', 'RemoteWorker._run_backend')


def region_of(qualname, line):
    """which part of the innermost enclosing try statement of the child's run loop a line belongs to"""
    import ast
    import inspect
    import pyworkers.thread, pyworkers.process, pyworkers.remote
    mod = {'ThreadWorker._run': pyworkers.thread, 'ProcessWorker._run': pyworkers.process,
           'RemoteWorker._run_backend': pyworkers.remote}.get(qualname)
    if mod is None:
        return '?'
    tree = _AST.get(mod)
    if tree is None:
        tree = _AST[mod] = ast.parse(inspect.getsource(mod))
    fname = qualname.split('.')[-1]
    best = 'outside-try'
    depth = -1
    for fn in ast.walk(tree):
        if isinstance(fn, ast.FunctionDef) and fn.name == fname:
            def visit(node, d):
                nonlocal best, depth
                for ch in ast.iter_child_nodes(node):
                    if isinstance(ch, ast.Try):
                        parts = (('try', ch.body), ('else', ch.orelse), ('finally', ch.finalbody))
                        for name, body in parts:
                            if body and body[0].lineno <= line <= max(getattr(b, 'end_lineno', b.lineno) for b in body):
                                if d > depth:
                                    best, depth = f'{name}#{d}', d
                        for h in ch.handlers:
                            if h.lineno <= line <= h.end_lineno:
                                if d > depth:
                                    best, depth = f'except#{d}', d
                        visit(ch, d + 1)
                    else:
                        visit(ch, d)
            visit(fn, 0)
    return best


def landing_tag(l):
    inner = str(l['at'][0])
    # a landing inside the standard library's Connection code (send / recv framing) is named as such: what matters there is
    # that the pipe message may have been cut between its header and its payload
    lib = f':in-stdlib:{inner}' if inner.startswith(('Connection.', '_ConnectionBase.')) else ''
    for qn, ln in l.get('stack') or []:
        if qn in RUN_LOOPS:
            return f'{qn}[{region_of(qn, ln)}]' + lib
    return inner


def cause(sim, raised=(), returned=()):
    """normalised description of what happened in the child, for violation signatures"""
    died = [d for d in sim.died if d[3] and 'workload' not in d[3]]
    parent_died = [d for d in died if d[0].count('.') <= 1 and not d[3].startswith('child-main') and d[3] != 'ThreadWorker._run']
    if parent_died:
        d = parent_died[0]
        return f'helper-thread-died:{d[1]}@{d[2]}'
    if sim.landings:
        return 'landed@' + landing_tag(sim.landings[-1])
    if raised:
        return f'raised:{raised[-1]}'
    if returned:
        return 'returned'
    return 'nothing'
