"""C18 - remote contexts are unique per id, supply their workers' work, and clean up (model-based)."""
from workloads import lib, targets as T
from . import common as C

ID = 'C18'
LEVEL = 'exploration'
BUDGET = {'quick': 100, 'thorough': 900}
RULE = ('Cases = histories of <= 8 operations over context ids {1,2,3}: create, create duplicate, delete, delete unknown, repeated close / wait / terminate on the handle of a deleted context (id possibly re-registered), start '
        '(one-shot / persistent) worker in context i, start worker in an unknown context, enqueue, wait x schedule; checked against '
        "a dictionary model of the server's context table, with a fresh round trip after every operation.")
ASSUMPTIONS = ['every context registers a distinct (id, generation) tag as default argument so that results identify their context']

IDS = [1, 2, 3]


def gen_case(ctx, rng, i, tag='random'):
    from harness.check import draw_env
    pol, knobs = draw_env(rng, tcp=True)
    ops = []
    if rng.random() < 0.15:
        ops.append(['delete', rng.choice(IDS), 'raw'])      # the first context request of the server's life
    if rng.random() < 0.25:
        # directed prefix: an id is deleted and registered again (new generation) before something touches the old handle
        cid = rng.choice(IDS)
        ops += [['create', cid], ['delete', cid], ['create', cid]]
        if rng.random() < 0.5:
            ops.append(['pworker', cid])
        ops.append(['stale', cid, rng.choice(['close', 'wait', 'terminate'])])
        if rng.random() < 0.5:
            ops.append(['enqueue', 0])
    if rng.random() < 0.2:
        # directed prefix: a context that has served several workers - some finished long ago, some still alive - is deleted
        cid = rng.choice(IDS)
        ops.append(['create', cid])
        for _ in range(rng.randrange(2, 5)):
            ops.append([rng.choice(['worker', 'pworker', 'pworker']), cid])
        if rng.random() < 0.3:
            ops.insert(rng.randrange(len(ops) - 1, len(ops) + 1), ['waitall'])
        ops.append(['delete', cid, 'handle'])
    for _ in range(rng.randrange(2, 9)):
        r = rng.random()
        cid = rng.choice(IDS)
        if r < 0.3:
            ops.append(['create', cid])
        elif r < 0.42:
            ops.append(['delete', cid, rng.choice(['handle', 'raw'])])
        elif r < 0.5:
            # clean-up code calling close() / wait() / terminate() once more on the handle of an already deleted context
            ops.append(['stale', cid, rng.choice(['close', 'wait', 'terminate'])])
        elif r < 0.68:
            ops.append(['worker', cid])
        elif r < 0.8:
            ops.append(['pworker', cid])
        elif r < 0.9:
            ops.append(['enqueue', rng.randrange(0, 4)])
        else:
            ops.append(['waitall'])
    return {'kind': 'contexts', 'ops': ops, 'policy': pol, 'knobs': knobs, 'sched_seed': ctx.case_seed(tag, i)}


class Run:
    def __init__(self, sim, case):
        self.sim = sim
        self.case = case
        self.V = []
        self.trace = []

    def viol(self, clause, man, detail=None):
        if not any(v['clause'] == clause and v['manifestation'] == man for v in self.V):
            self.V.append({'clause': clause, 'manifestation': man, 'detail': {'detail': detail, 'trace': self.trace[-10:]}})

    def root(self):
        from pyworkers.remote import RemoteWorker, ConnectionClosedError
        from pyworkers.persistent_remote import PersistentRemoteWorker
        from pyworkers.remote_context import RemoteContext
        s, c = self.sim, self.case
        srv = lib.start_server()
        addr = srv.addr
        sp = s.procs[srv.pid]
        model = {}        # id -> {'tag': str, 'obj': RemoteContext, 'pworkers': [...]}
        gen = {i: 0 for i in IDS}
        pws = []          # (ctx id, tag, worker, n_enqueued)
        stale = {i: [] for i in IDS}     # handles of contexts deleted through them
        rt = 0
        for op in c['ops']:
            name = op[0]
            self.trace.append(op)
            if name == 'create':
                cid = op[1]
                gen[cid] += 1
                tagv = f'ctx{cid}-gen{gen[cid]}'
                r = lib.call_with_deadline(RemoteContext, 300.0, cid, host=addr, target=T.t_echo, args=[tagv], kwargs={'k': cid})
                if r[0] == 'hung':
                    self.viol('operation-returns', 'create-hangs', s.blocked_report()[:5])
                    return
                if cid in model:
                    if not (r[0] == 'exc' and isinstance(r[1], ValueError)):
                        self.viol('unique-per-id', f'duplicate-create-{r[0]}:{type(r[1]).__name__}')
                        if r[0] == 'ok':
                            model[cid] = {'tag': tagv, 'obj': r[1]}
                else:
                    if r[0] != 'ok':
                        self.viol('create-succeeds', f'create-{r[0]}:{type(r[1]).__name__}', lib.safe_repr(r[1]))
                        return
                    model[cid] = {'tag': tagv, 'obj': r[1]}
            elif name == 'delete':
                cid = op[1]
                if cid in model:
                    ent = model.pop(cid)
                    mine = [p for p in pws if p[0] == cid and p[1] == ent['tag']]
                    r = lib.call_with_deadline(ent['obj'].close, 300.0)
                    if r[0] != 'ok':
                        self.viol('delete', f'delete-{r[0]}:{type(r[1]).__name__ if r[1] is not None else None}', s.blocked_report()[:5] if r[0] == 'hung' else None)
                        return
                    if ent['obj'].is_alive():
                        self.viol('delete', 'context-still-alive-after-delete')
                    stale[cid].append(ent['obj'])
                    # its workers end
                    s.sleep(1.0)
                    for p in mine:
                        w = p[2]
                        bp = s.procs.get(w.pid)
                        if bp is not None and bp.alive and bp is not s.root_proc:
                            self.viol('delete-ends-workers', 'worker-of-deleted-context-still-running', repr(w))
                        r = lib.call_with_deadline(w.wait, 300.0, timeout=5)
                        if not (r[0] == 'ok' and r[1] is True):
                            self.viol('delete-ends-workers', f'parent-side-worker-not-dead-after-delete:{r[0]}')
                        pws.remove(p)
                elif len(op) > 2 and op[2] == 'raw':
                    # delete of an id the server does not know, sent as a bare protocol request (what a client holding a handle from
                    # before a server restart sends) - possibly the very first context request this server ever sees
                    from pyworkers.remote import send_msg, recv_msg
                    from simos.sockshim import SocketFacade
                    S = SocketFacade()

                    def raw_delete():
                        sk = S.socket(S.AF_INET, S.SOCK_STREAM)
                        sk.connect(addr)
                        try:
                            send_msg(sk, (cid, False))
                            send_msg(sk, None)
                            return recv_msg(sk)
                        finally:
                            sk.close()
                    r = lib.call_with_deadline(raw_delete, 300.0)
                    if r[0] != 'ok' or r[1] is not True:
                        self.viol('delete', f'delete-unknown-raw-{r[0]}:{lib.safe_repr(r[1]) if r[0] == "ok" else type(r[1]).__name__}')
                        if r[0] == 'hung':
                            return
                else:
                    # delete of an id the server does not know (forged through a stale handle)
                    tmp_id = 40 + cid
                    r = lib.call_with_deadline(RemoteContext, 300.0, tmp_id, host=addr, target=T.t_echo, args=['tmp'])
                    if r[0] == 'ok':
                        o = r[1]
                        lib.call_with_deadline(o.close, 300.0)
                        o._alive = True
                        r = lib.call_with_deadline(o.close, 300.0)
                        if r[0] != 'ok':
                            self.viol('delete', f'delete-unknown-{r[0]}:{type(r[1]).__name__ if r[1] is not None else None}')
                            if r[0] == 'hung':
                                return
            elif name == 'stale':
                cid = op[1]
                if stale[cid]:
                    h = stale[cid][-1]
                    r = lib.call_with_deadline(getattr(h, op[2]), 300.0)
                    if r[0] != 'ok' or (op[2] != 'close' and r[1] is not True):
                        self.viol('delete', f'repeated-{op[2]}-on-deleted-context-handle:{r[0]}:{lib.safe_repr(r[1])}')
                        if r[0] == 'hung':
                            return
                    if cid in model:
                        # the context registered under this id meanwhile is somebody else's: it must be untouched
                        tagv = model[cid]['tag']
                        r = lib.call_with_deadline(RemoteWorker, 600.0, None, context=cid, host=addr)
                        if r[0] != 'ok':
                            self.viol('delete-affects-own-context-only', f'context-gone-after-{op[2]}-on-stale-handle:worker-ctor-{r[0]}:{type(r[1]).__name__}')
                            return
                        w = r[1]
                        r = lib.call_with_deadline(w.wait, 300.0, timeout=30)
                        exp = [[tagv], {'k': cid}]
                        if not (r[0] == 'ok' and r[1] is True) or w.has_error is not False or w.result != exp:
                            self.viol('delete-affects-own-context-only', f'context-damaged-after-{op[2]}-on-stale-handle',
                                      {'got': lib.safe_repr(w.result), 'err': lib.safe_repr(w.error), 'exp': exp})
                            return
            elif name in ('worker', 'pworker'):
                cid = op[1]
                cls = RemoteWorker if name == 'worker' else PersistentRemoteWorker
                r = lib.call_with_deadline(cls, 600.0, None, context=cid, host=addr)
                if r[0] == 'hung':
                    self.viol('unknown-context-harmless' if cid not in model else 'worker-in-context', f'{name}-constructor-hangs:known={cid in model}',
                              s.blocked_report()[:5])
                    return
                if cid not in model:
                    if r[0] == 'ok':
                        self.viol('unknown-context-harmless', 'worker-created-in-unknown-context')
                else:
                    if r[0] != 'ok':
                        self.viol('worker-in-context', f'{name}-ctor-{r[0]}:{type(r[1]).__name__}', lib.safe_repr(r[1]))
                        return
                    w = r[1]
                    tagv = model[cid]['tag']
                    if name == 'worker':
                        r = lib.call_with_deadline(w.wait, 300.0, timeout=30)
                        exp = [[tagv], {'k': cid}]
                        if not (r[0] == 'ok' and r[1] is True) or w.has_error is not False or w.result != exp:
                            self.viol('context-supplies-work', 'one-shot-worker-result-differs', {'got': lib.safe_repr(w.result), 'err': lib.safe_repr(w.error), 'exp': exp})
                    else:
                        pws.append([cid, tagv, w, 0])
            elif name == 'enqueue':
                if pws:
                    p = pws[op[1] % len(pws)]
                    w = p[2]
                    x = 100 + len(self.trace)
                    r = lib.call_with_deadline(w.call, 300.0, x)
                    exp = [[x], {'k': p[0]}]
                    if r[0] != 'ok' or r[1] != exp:
                        self.viol('context-supplies-work', f'persistent-worker-result-differs:{r[0]}', {'got': lib.safe_repr(r[1]), 'exp': exp})
            elif name == 'waitall':
                for p in list(pws):
                    r = lib.call_with_deadline(p[2].wait, 300.0, timeout=30)
                    if not (r[0] == 'ok' and r[1] is True):
                        self.viol('worker-in-context', f'wait-{r[0]}:{r[1] if r[0] == "ok" else None}')
                    pws.remove(p)
            # the server survives every operation and still serves clients
            if not sp.alive:
                exc = [e for e in s.truth if e['kind'] == 'child-main-exception' and e.get('pid_') == srv.pid]
                self.viol('server-survives', f'server-died-after:{name}:{exc[0]["exc"] if exc else "?"}', exc[:1])
                return
            rt += 1
            r = lib.call_with_deadline(self.roundtrip, 120.0, addr, 7000 + rt)
            if r[0] != 'ok' or r[1] != 7000 + rt:
                self.viol('server-survives', f'fresh-client-not-served-after:{name}:{r[0]}', lib.safe_repr(r[1]))
                return
        s.probe('history-completed')

    def roundtrip(self, addr, x):
        from pyworkers.remote import RemoteWorker
        w = RemoteWorker(T.t_return, kwargs={'v': x}, host=addr)
        w.wait(timeout=30)
        return w.result

    def obs_summary(self):
        return {'trace': self.trace[:10]}

    def judge(self, outcome):
        if outcome in ('hang', 'time-cap', 'spin'):
            return [{'clause': 'operation-returns', 'manifestation': f'workload-{outcome}', 'detail': self.sim.outcome_info}]
        return self.V


def make_run(sim, case):
    return Run(sim, case)


def plan(ctx):
    rng = ctx.rng
    n = 700 if ctx.tier != 'thorough' else 15000
    cases = []
    for i in range(n):
        cases.append(gen_case(ctx, rng, i))
        if len(cases) >= 700:
            ctx.run(cases, 'histories')
            cases = []
            if ctx.time_left() < 0:
                break
    if cases:
        ctx.run(cases, 'histories')


def smoke_cases(ctx, n):
    return [gen_case(ctx, ctx.rng, i, 'smoke') for i in range(n)]


def shrink(case):
    c = dict(case)
    ops = c['ops']
    for k in range(len(ops)):
        yield dict(c, ops=ops[:k] + ops[k + 1:])
    if c.get('knobs'):
        yield dict(c, knobs={})
