"""C15 - load-time state patches reach only the addressed objects and leave no residue."""
import copy
from workloads import lib, graphs as G
from simos.sync import Thread as SimThread
from . import common as C

ID = 'C15'
LEVEL = 'exploration'
BUDGET = {'quick': 90, 'thorough': 900}
RULE = ('Cases = object graph (0-4 opt-in objects: top level, 1-3 sibling attributes, inside containers, chains <= 3, shared, cyclic, '
        'dict and non-dict states, with / without __setstate__) x patch dictionary (top-level entries, existing / missing children, '
        'nested levels, replacement by a non-dict) x history of 1-5 loads calls on one simulated thread, some failing part-way '
        '(stream truncated at byte k, a __setstate__ that raises) x 0-2 other simulated threads doing their own loads, interleaved '
        'at line level inside the remote-pickle state machinery.')
ASSUMPTIONS = ['differential oracle: graphs whose plain (un-patched) load already fails are skipped (that is C14, not claimed)']


def gen_graph(rng, prefix='g'):
    n = [0]

    def tag():
        n[0] += 1
        return f'{prefix}{n[0]}'

    def opt(depth=0, allow_children=True):
        cls = rng.choice(['OptSS'] * 12 + ['Opt'])
        sp = {'cls': cls, 'tag': tag(), 'attrs': {'x': rng.randrange(10), 'name': rng.choice(['n1', 'n2'])}}
        if allow_children and depth < 3 and n[0] < 5:
            for an in rng.sample(['a', 'b', 'c'], rng.choice([0, 0, 1, 1, 2, 3])):
                r = rng.random()
                if r < 0.6 and n[0] < 5:
                    sp['attrs'][an] = opt(depth + 1)
                elif r < 0.7:
                    sp['attrs'][an] = {'cls': 'Plain', 'tag': tag(), 'attrs': {'v': rng.randrange(5)}}
                elif r < 0.8 and n[0] < 5:
                    sp['attrs'][an] = {'$list': [opt(depth + 1, False), 7]}
                elif r < 0.85:
                    sp['attrs'][an] = {'cls': 'OptTuple', 'tag': tag()}
                else:
                    sp['attrs'][an] = [1, 2, {'k': 'v'}]
        return sp
    top = opt()
    # shared / cyclic variants
    kids = [k for k, v in top['attrs'].items() if isinstance(v, dict) and v.get('cls') in ('Opt', 'OptSS')]
    r = rng.random()
    if kids and r < 0.15:
        free = [x for x in ['a', 'b', 'c', 'd'] if x not in top['attrs']]
        if free:
            top['attrs'][free[0]] = {'$same': top['attrs'][kids[0]]['tag']}
    elif kids and r < 0.3:
        top['attrs'][kids[0]]['attrs']['parent'] = {'$top': 1}
    return top


def gen_patches(rng, graph):
    p = {}
    kids = [k for k, v in graph['attrs'].items() if isinstance(v, dict) and v.get('cls') in ('Opt', 'OptSS')]
    for _ in range(rng.randrange(0, 4)):
        r = rng.random()
        if r < 0.35:
            p[rng.choice(['x', 'name', 'extra', 'sock'])] = rng.choice([99, 'patched', None, [1, 2]])
        elif r < 0.65 and kids:
            k = rng.choice(kids)
            sub = {rng.choice(['x', 'name', 'new']): rng.choice([55, 'sub-patched'])}
            if rng.random() < 0.2:
                sub = {}          # a sub-patch that was filtered down to nothing: the child must come through unchanged
            gk = [kk for kk, v in graph['attrs'][k].get('attrs', {}).items() if isinstance(v, dict) and v.get('cls') in ('Opt', 'OptSS')]
            if gk and rng.random() < 0.4:
                sub[rng.choice(gk)] = {'x': 77} if rng.random() < 0.8 else {}
            p[k] = sub
        elif r < 0.8 and kids:
            p[rng.choice(kids)] = rng.choice(['replaced', 5])
        else:
            p[rng.choice(['missing', 'zz'])] = rng.choice([{'q': 1}, 'm'])
    return p


def gen_case(ctx, rng, i, tag='random'):
    from harness.check import draw_env
    pol, _ = draw_env(rng)
    hist = []
    for k in range(rng.randrange(1, 6)):
        g = gen_graph(rng, prefix=f'h{k}_')
        call = {'graph': g, 'patches': gen_patches(rng, g), 'fault': None}
        r = rng.random()
        if r < 0.2:
            call['fault'] = {'corrupt': rng.random()}
        elif r < 0.3:
            call['fault'] = {'setstate_raises': rng.randrange(1, 4)}
        hist.append(call)
    others = []
    for t in range(rng.choice([0, 0, 1, 2])):
        calls = []
        for k in range(rng.randrange(1, 4)):
            g = gen_graph(rng, prefix=f'o{t}_{k}_')
            calls.append({'graph': g, 'patches': gen_patches(rng, g)})
        others.append(calls)
    return {'kind': 'loads', 'history': hist, 'others': others, 'policy': pol, 'knobs': {}, 'sched_seed': ctx.case_seed(tag, i)}


def do_load(call, data):
    """-> ('ok', top_desc, nodes) | ('exc', type name)"""
    from pyworkers import remote_pickle
    f = call.get('fault')
    d = data
    if f and 'corrupt' in f:
        d = data[:max(1, int(len(data) * f['corrupt']))]
    if f and 'setstate_raises' in f:
        G.OptSS.fail_on = call['_fail_tag']
    try:
        obj = remote_pickle.loads(d, extra_kwargs=copy.deepcopy(call['patches']))
    except BaseException as e:   # noqa
        return ('exc', type(e).__name__)
    finally:
        if f and 'setstate_raises' in f:
            G.OptSS.fail_on = None
    top, nodes = G.describe(obj)
    return ('ok', top, nodes, obj)


class Run:
    def __init__(self, sim, case):
        self.sim = sim
        self.case = case
        self.V = []
        self.n = {'calls': 0, 'skipped': 0, 'failed-calls': 0}

    def viol(self, clause, man, detail=None):
        if not any(v['clause'] == clause and v['manifestation'] == man for v in self.V):
            self.V.append({'clause': clause, 'manifestation': man, 'detail': detail})

    def in_fresh_thread(self, fn, *a):
        box = {}

        def body():
            box['r'] = fn(*a)
        t = SimThread(target=body)
        t.start()
        t.join(600.0)
        return box.get('r', ('hung',))

    def prepare(self, call):
        from pyworkers import remote_pickle
        obj = G.build(call['graph'])
        data = remote_pickle.dumps(obj)
        f = call.get('fault')
        if f and 'setstate_raises' in f:
            tags = []

            def walk(sp):
                if isinstance(sp, dict) and sp.get('cls') == 'OptSS':
                    tags.append(sp['tag'])
                if isinstance(sp, dict):
                    for v in (sp.get('attrs') or {}).values():
                        walk(v)
                    for v in sp.get('$list', []):
                        walk(v)
            walk(call['graph'])
            call['_fail_tag'] = tags[(f['setstate_raises'] - 1) % len(tags)] if tags else '<none>'
        return data

    def features(self, graph):
        f = set()

        def walk(sp, depth, in_container):
            if isinstance(sp, dict) and sp.get('cls') in ('Opt', 'OptSS'):
                if in_container:
                    f.add('opt-in-object-inside-container')
                kids = [v for v in sp.get('attrs', {}).values() if isinstance(v, dict) and v.get('cls') in ('Opt', 'OptSS')]
                if len(kids) > 1:
                    f.add('sibling-children')
                if depth >= 1 and kids:
                    f.add('nested-children')
                for v in sp.get('attrs', {}).values():
                    walk(v, depth + 1, False)
            elif isinstance(sp, dict) and '$list' in sp:
                for x in sp['$list']:
                    walk(x, depth, True)
            elif isinstance(sp, dict) and '$top' in sp:
                f.add('cyclic')
            elif isinstance(sp, dict) and '$same' in sp:
                f.add('shared')
            elif isinstance(sp, dict) and sp.get('cls') == 'OptTuple':
                f.add('non-dict-state')
        walk(graph, 0, False)
        for k in ('opt-in-object-inside-container', 'cyclic', 'shared', 'sibling-children', 'nested-children', 'non-dict-state'):
            if k in f:
                return k
        return 'simple-graph'

    def check_call(self, call, data, res, who):
        """clauses (i) and (ii) for a call without injected fault"""
        plain = do_load({'patches': {}, 'fault': None}, data)
        if plain[0] != 'ok':
            self.n['skipped'] += 1
            self.sim.probe('plain-load-fails')
            return
        if res[0] != 'ok':
            self.viol('patches-applied', f'patched-load-raises:{res[1]}:{self.features(call["graph"])}', {'patches': call['patches'], 'graph': call['graph'], 'who': who})
            return
        if not isinstance(plain[3], G.Opt):
            return
        exp = G.describe(G.model_apply_obj(plain[3], copy.deepcopy(call['patches'])))[0]
        got = res[1]
        if got != exp:
            self.viol('only-addressed-objects', 'patch-misdelivered:' + self.features(call['graph']), {'patches': call['patches'], 'graph': call['graph'], 'got': got, 'exp': exp, 'who': who})

    def diff_kind(self, got, exp):
        # where do they differ: in an addressed entry (patch not applied) or elsewhere (foreign object modified)?
        try:
            gs, es = got['state'], exp['state']
            for k in sorted(set(gs) | set(es)):
                if gs.get(k) != es.get(k):
                    return 'top-level-entry-differs' if not isinstance(es.get(k), dict) or '$obj' not in (es.get(k) or {}) else 'child-state-differs'
        except Exception:
            pass
        return 'graph-differs'

    def root(self):
        s, c = self.sim, self.case
        # other threads run their own loads concurrently
        ths = []
        for calls in c['others']:
            t = SimThread(target=self.other, args=(calls,))
            t.start()
            ths.append(t)
        for k, call in enumerate(c['history']):
            data = self.prepare(call)
            self.n['calls'] += 1
            res = do_load(call, data)
            if res[0] != 'ok':
                self.n['failed-calls'] += 1
            # (iii) same outcome as on a brand-new thread
            fresh = self.in_fresh_thread(do_load, call, data)
            if fresh[0] == 'hung':
                self.viol('independent-calls', 'fresh-thread-load-hangs')
                return
            a = res[:2] if res[0] == 'ok' else res
            b = fresh[:2] if fresh[0] == 'ok' else fresh
            if a != b:
                prev = [('failed' if (h.get('fault')) else 'ok') for h in c['history'][:k]]
                self.viol('independent-calls', f'differs-from-fresh-thread:after-{"failed" if "failed" in prev else "ok"}-calls:{a[0]}-vs-{b[0]}',
                          {'k': k, 'this': lib.safe_repr(a, 300), 'fresh': lib.safe_repr(b, 300), 'prev': prev})
            if not call.get('fault'):
                self.check_call(call, data, res, 'history-thread')
        for t in ths:
            t.join(600.0)

    def other(self, calls):
        for call in calls:
            data = self.prepare(call)
            res = do_load(dict(call, fault=None), data)
            self.check_call(call, data, res, 'concurrent-thread')

    def obs_summary(self):
        return self.n

    def judge(self, outcome):
        if outcome in ('hang', 'time-cap', 'spin'):
            return [{'clause': 'independent-calls', 'manifestation': f'workload-{outcome}', 'detail': self.sim.outcome_info}]
        return self.V


def make_run(sim, case):
    return Run(sim, case)


def plan(ctx):
    rng = ctx.rng
    n = 3000 if ctx.tier != 'thorough' else 80000
    cases = []
    for i in range(n):
        cases.append(gen_case(ctx, rng, i))
        if len(cases) >= 3000:
            ctx.run(cases, 'histories')
            cases = []
            if ctx.time_left() < 0:
                break
    if cases:
        ctx.run(cases, 'histories')


def smoke_cases(ctx, n):
    return [gen_case(ctx, ctx.rng, i, 'smoke') for i in range(n)]


def shrink(case):
    c = dict(case)
    h = c['history']
    for k in range(len(h)):
        if len(h) > 1:
            yield dict(c, history=h[:k] + h[k + 1:])
    if c['others']:
        yield dict(c, others=[])
    for k in range(len(h)):
        if h[k]['patches']:
            for key in list(h[k]['patches']):
                nh = copy.deepcopy(h)
                del nh[k]['patches'][key]
                yield dict(c, history=nh)
