"""C08 - Pool failure reports are sound: PoolError only when no worker is left; partial results are genuine."""
from workloads import lib
from . import pools
from .pools import PoolRun, tb_tail

ID = 'C08'
LEVEL = 'exploration'
BUDGET = {'quick': 100, 'thorough': 900}
RULE = ('Cases = the schedule / death space of C07 (without a refusing enqueue_fn) x retry {on, off} x return_results {on, off} x '
        'death cause {poison input, worker-specific failure, external SIGKILL} x with / without a worker that never fails.')
ASSUMPTIONS = ['"handed to a worker" is read from probe subclasses overriding enqueue (only for workers created through a class)']


class Run(PoolRun):
    def root(self):
        from pyworkers.pool import PoolError
        s, c = self.sim, self.case
        s.me().role = 'workload-pool'
        host = lib.start_server().addr if any(w['kind'] == 'premote' for w in c['workers']) else None
        pool = self.make_pool(host, retry=c['retry'], close_timeout=1)
        self.add_workers(pool, host)
        if len(self.workers) != len(c['workers']):
            return
        r = self.run_pool(pool, c['inputs'])
        genuine = [repr(['r', x]) for x in c['inputs']]
        self.res = {'status': r[0], 'retry': c['retry']}
        survivor = (not c['poison']) and (not c['faults']) and any(w.get('fail_after') is None for w in c['workers'])
        if r[0] == 'hung':
            self.viol('terminates', 'run-never-returns')
            return
        partial = None
        if r[0] == 'exc':
            e = r[1]
            self.res['exc'] = type(e).__name__
            if not isinstance(e, PoolError):
                self.viol('no-internal-error', f'run-raises:{type(e).__name__}@{tb_tail(e)}', lib.safe_repr(e))
                return
            # PoolError => every worker of the pool is dead (or dying) at that instant
            alive = []
            for w in self.workers:
                gone = False
                for _ in range(40 if s.clock_mode != 'adversarial' else 600):
                    if self.child_gone(w):
                        gone = True
                        break
                    s.sleep(0.05)
                if not gone:
                    alive.append(w)
            if alive:
                self.viol('poolerror-only-without-workers', f'PoolError-with-live-worker:retry={c["retry"]}',
                          {'alive': [repr(w) for w in alive], 'msg': str(e)})
            if survivor and c['retry']:
                self.viol('survivor-completes', 'PoolError-although-a-worker-never-fails', str(e))
            partial = e.partial_results
            if c['return_results'] and partial is None:
                self.viol('partial-results', 'partial_results-missing')
        else:
            partial = r[1] if c['return_results'] else None
            if c['retry'] and c['return_results'] and isinstance(partial, list) and sorted(map(repr, partial)) != sorted(genuine):
                self.viol('complete-with-retry', 'normal-return-with-wrong-results', {'got': partial, 'exp': genuine})
        if isinstance(partial, list):
            g = list(map(repr, partial))
            foreign = [x for x in g if x not in genuine]
            if foreign:
                self.viol('partial-results', 'non-genuine-result', foreign)
            if len(set(g)) != len(g):
                self.viol('partial-results', 'duplicate-result', g)
            if not c['retry'] and r[0] == 'ok':
                # (normal return only: after a PoolError inputs that were never drawn are legitimately missing)
                # every missing input was handed (or being handed) to a worker that died without answering it
                if all(w.get('probe') for w in c['workers']):
                    missing = [x for x in c['inputs'] if repr(['r', x]) not in g]
                    att = {}
                    for e in s.truth:
                        if e['kind'] == 'enqueue-attempt':
                            att.setdefault(e['x'], []).append(e['userid'])
                    # answered = the target returned AND the child went on to write its result message (ordered kernel log)
                    answered = set()
                    for i, ev in enumerate(s.log):
                        if ev[0] == 'p-leave' and ev[3] != 'raise':
                            if any(e2[0] == 'write' and e2[1] == ev[1] for e2 in s.log[i + 1:i + 400]):
                                answered.add(ev[2])
                    for x in missing:
                        if x not in att:
                            self.viol('missing-inputs-explained', 'missing-input-never-handed-to-a-worker', {'x': x, 'partial': g})
                            break
                        for _ in range(40 if s.clock_mode != 'adversarial' else 600):
                            dead_holders = [u for u in att[x] if self.child_gone(self.workers[u])]
                            if dead_holders:
                                break
                            s.sleep(0.05)
                        if not dead_holders:
                            self.viol('missing-inputs-explained', 'missing-input-held-by-live-worker', {'x': x, 'holders': att[x]})
                            break
                        if x in answered:
                            s.probe('missing-input-was-answered-but-dropped')
                            self.viol('missing-inputs-explained', 'missing-input-was-answered-then-dropped:extra_pending=' +
                                      str(c['extra_pending']), {'x': x, 'partial': g})
                            break
        try:
            lib.call_with_deadline(pool.terminate, 600.0)
        except Exception:
            pass

    def judge(self, outcome):
        return self.finish(outcome)


def make_run(sim, case):
    return Run(sim, case)


def gen(ctx, rng, i, tag):
    surv = rng.choice([None, None, True])
    return pools.gen_pool_case(ctx, rng, i, tag, enqueue_fn_ok=False, survivor=surv, directed_late=(surv is None and i % 4 == 3), double_death=(surv is None and i % 4 == 2))


def plan(ctx):
    rng = ctx.rng
    n = 2000 if ctx.tier != 'thorough' else 60000
    cases = []
    for i in range(n):
        cases.append(gen(ctx, rng, i, 'random'))
        if len(cases) >= 2000:
            ctx.run(cases, 'pool-runs')
            cases = []
            if ctx.time_left() < 0:
                break
    if cases:
        ctx.run(cases, 'pool-runs')


def smoke_cases(ctx, n):
    return [gen(ctx, ctx.rng, i, 'smoke') for i in range(n)]


from .c07 import shrink   # noqa
