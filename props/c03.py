"""C03 - graceful terminate interrupts the target wherever it is and is reported as such."""
from workloads import lib, targets as T
from workloads.probes import KINDS
from . import common as C

ID = 'C03'
LEVEL = 'fault_enumeration'
BUDGET = {'quick': 100, 'thorough': 900}
RULE = ('Cases = worker class x cooperative target (python loop / loop in try-finally / sleeping loop / returns at once / raises '
        'at once; persistent: 0-2 items queued or idle) x one terminate(force=False) released exactly when the victim thread is '
        'at an enumerated asynchronous-exception delivery point (function entry, after a C call, backward jump, return of a '
        'blocking call) between constructor-returned and exit x seeded schedules afterwards.')
ASSUMPTIONS = ['responsive clock only (liveness clauses)', 'all targets let the exception propagate']

ONE_SHOT = [
    ('loop', 't_loop', {'n': 30, 'd': 0.01, 'v': 'loop-done'}),
    ('loop-finally', 't_loop_finally', {'n': 30, 'd': 0.01, 'v': 'lf-done'}),
    ('pyloop', 't_pyloop', {'n': 25, 'v': 'py-done'}),
    ('ret-now', 't_return', {'v': 7}),
    ('raise-now', 't_raise', {'name': 'ValueError', 'args': ['own']}),
]
PERSISTENT = [
    ('p-idle', 'p_square', {}, []),
    ('p-slow2', 'p_slow', {'d': 0.05}, [1, 2]),
    ('p-square1', 'p_square', {}, [3]),
    ('p-poison', 'p_poison', {'poison': [1]}, [1]),
]
TARGET_FNS = {'t_loop', 't_loop_finally', 't_pyloop', 't_return', 't_raise', 'p_square', 'p_slow', 'p_poison'}


def targets_for(kind):
    return PERSISTENT if lib.is_persistent(kind) else ONE_SHOT


def mk_case(ctx, kind, flavour, idx, fault=None, policy=None, knobs=None, timeout=1, tag='', fault2=None):
    ent = next(e for e in targets_for(kind) if e[0] == flavour)
    return {'kind': kind, 'flavour': flavour, 'fn': ent[1], 'kwargs': ent[2], 'items': ent[3] if len(ent) > 3 else None,
            'fault': fault, 'fault2': fault2, 'timeout': timeout, 'policy': policy or {'kind': 'random', 'p_stay': 0.5}, 'knobs': knobs or {},
            'sched_seed': ctx.case_seed(tag, kind, flavour, idx)}


class Run:
    def __init__(self, sim, case):
        self.sim = sim
        self.case = case
        self.info = {}
        self.final = None
        if case.get('census'):
            C.install_census(sim)
        C.install_fault(sim, case.get('fault'))
        C.install_fault(sim, case.get('fault2'))

    def root(self):
        s, c = self.sim, self.case
        kind = c['kind']
        host = None
        if lib.is_remote(kind):
            host = lib.start_server().addr
        w = lib.make_worker(kind, c['fn'], kwargs=dict(c['kwargs']), host=host)
        s.census_mark = 1
        s.tlog('ctor-returned')
        if lib.is_persistent(kind):
            for x in c['items'] or []:
                try:
                    w.enqueue(x)
                except BaseException as e:   # noqa
                    self.info.setdefault('enqueue-raised', []).append(type(e).__name__)
        if c.get('census'):
            # fault-free reference run: let the work finish (persistent: close it)
            st, v, el = lib.timed(w.wait, timeout=10)
            self.info['wait'] = [st, lib.safe_repr(v)]
        else:
            opened = s.gate_wait('fault', timeout=15.0)
            self.info['gate'] = opened
            s.tlog('terminate-call')
            st, v, el = lib.timed(w.terminate, timeout=c['timeout'], force=False)
            self.info['terminate'] = {'status': st, 'value': v if st == 'ok' else type(v).__name__, 'elapsed': round(el, 4)}
            s.tlog('terminate-returned')
            if not (st == 'ok' and v is True):
                st2, v2, el2 = lib.timed(w.wait, timeout=5)
                self.info['wait-after'] = [st2, lib.safe_repr(v2)]
        s.sleep(0.2)
        rec = lib.read4(w)
        ro = rec.pop('_result_obj', None)
        rec['result_value'] = ro if isinstance(ro, (int, str, type(None))) else lib.safe_repr(ro)
        self.final = rec

    def obs_summary(self):
        d = {'info': self.info, 'final': self.final}
        if self.case.get('census'):
            d['census_dp'] = C.census_points(self.sim.census_dp)
        return d

    def judge(self, outcome):
        s, c = self.sim, self.case
        V = []
        kind = c['kind']
        if outcome in ('hang', 'time-cap'):
            where = [b for b in (s.outcome_info or {}).get('blocked', []) if b['thread'] == 'm']
            fr = where[0]['frames'][0].split(':')[0] if where and where[0]['frames'] else '?'
            V.append({'clause': 'terminate-returns', 'manifestation': f'blocked@{fr}', 'detail': (s.outcome_info or {}).get('blocked')})
            return V
        if c.get('census') or self.final is None:
            return V
        vict = {t.name for t in C.victims(s)}
        landings = [l for l in s.landings if l['thread'] in vict]
        truth = s.truth
        left = [e for e in truth if e['kind'] == 'run-left']
        entered = [e for e in truth if e['kind'] == 'run-enter']
        fin = self.final
        term = self.info.get('terminate') or {}
        if term.get('status') == 'exc':
            V.append({'clause': 'terminate-returns', 'manifestation': f'terminate-raises:{term["value"]}', 'detail': term})
        for a in ('is_alive', 'has_error', 'result', 'error'):
            if isinstance(fin.get(a), dict) and 'RAISED' in fin[a]:
                V.append({'clause': 'outcome', 'manifestation': f'accessor-raises:{fin[a]["RAISED"]}', 'detail': fin})
                return V
        got = (fin['has_error'], fin['result_value'], fin['error']['type'] if fin['error'] else None)
        terminated = (True, None, C.WTE)
        # the target's own outcome(s) according to ground truth
        own = set()
        if lib.is_persistent(kind):
            n_ok = len([e for e in left if e['how'] == 'return'])
            n_raise = len([e for e in left if e['how'] == 'raise' and e['exc'] != C.WTE])
            n_enq = len(c['items'] or []) - len(self.info.get('enqueue-raised') or [])
            # a persistent worker "finishes on its own" by running out of input: the release of terminate() is queued behind the
            # inputs enqueued before it, so a successful end means that every one of them was processed
            if n_ok + n_raise >= n_enq:
                own.add((False, n_ok, None))
            for e in left:
                if e['how'] == 'raise' and e['exc'] != C.WTE:
                    own.add((True, None, e['exc']))
        else:
            for e in left:
                if e['how'] == 'return':
                    own.add((False, c['kwargs'].get('v'), None))
                elif e['exc'] != C.WTE:
                    own.add((True, None, e['exc']))
        where = None
        if landings:
            l = landings[0]
            in_target = any(qn in TARGET_FNS for qn, _ in l['stack'])
            nseq = l['nseq']
            entered_before = [e for e in entered if truth.index(e) < nseq]
            left_before = [e for e in left if truth.index(e) < nseq]
            if in_target:
                where = 'in-target'
            elif not entered_before:
                where = 'before-target'
            elif len(left_before) >= len(entered_before):
                where = 'after-target'
            else:
                where = 'in-target'     # inside run() but in a helper frame
            tag = C.landing_tag(l)
            if where == 'before-target' and '[finally' in tag:
                # (a persistent worker that never got an input has no target call to look at: a landing in the finally block of the
                # run loop means that its work phase - waiting for input - was already over, it had finished on its own)
                where = 'after-target'
            if where in ('in-target', 'before-target'):
                allowed = {terminated}
                # persistent: an item that already failed on its own before the landing keeps its outcome
                if got not in allowed:
                    V.append({'clause': 'reported-as-terminated', 'manifestation': f'{where}:got={_g(got)}:landed@{tag}',
                              'detail': {'final': fin, 'landing': l, 'own': sorted(map(str, own))}})
                slowed = bool(c.get('fault2')) and s.fault_counts.get('stall@point')
                if term.get('status') == 'ok' and term.get('value') is not True and not slowed:
                    # (liveness: not demanded of a child whose control thread was descheduled by an injected stall)
                    V.append({'clause': 'dead-within-timeout', 'manifestation': f'{where}:terminate-returned-{term.get("value")}:landed@{tag}',
                              'detail': {'terminate': term, 'landing': l}})
                if term.get('status') == 'ok' and term.get('elapsed', 0) > 5 * c['timeout'] + 2 and not slowed:
                    V.append({'clause': 'dead-within-timeout', 'manifestation': f'{where}:slow-terminate', 'detail': term})
                tried = [e for e in truth if e['kind'] == 'try-entered' and truth.index(e) < nseq]
                if where == 'in-target' and tried:
                    runner = [e['thread'] for e in entered_before][-1:] or [None]
                    if not T.FINALLY_MARKS:
                        V.append({'clause': 'finally-runs', 'manifestation': 'no-finally-marker', 'detail': l})
                    elif runner[0] != l['thread']:
                        V.append({'clause': 'finally-runs', 'manifestation': 'raised-in-foreign-thread', 'detail': [runner, l]})
            else:
                allowed = {terminated} | own
                if got not in allowed:
                    V.append({'clause': 'own-or-terminated', 'manifestation': f'after-target:got={_g(got)}:landed@{tag}',
                              'detail': {'final': fin, 'landing': l, 'own': sorted(map(str, own))}})
        else:
            # the exception was never delivered: only the target's own outcome is possible
            if fin['is_alive'] is False and got not in own:
                V.append({'clause': 'own-or-terminated', 'manifestation': f'no-landing:got={_g(got)}',
                          'detail': {'final': fin, 'own': sorted(map(str, own)), 'info': self.info}})
        if where:
            s.probe('landing:' + where)
        return V


def _g(got):
    he, res, err = got
    return f'({he},{"None" if res is None else "value"},{err})'


def make_run(sim, case):
    return Run(sim, case)


def plan(ctx):
    rng = ctx.rng
    quick = ctx.tier != 'thorough'
    from harness.check import draw_env
    census_cases = []
    for kind in KINDS:
        for fl in targets_for(kind):
            c = mk_case(ctx, kind, fl[0], 0, policy={'kind': 'cooperative'}, tag='census')
            c['census'] = True
            census_cases.append(c)
    res = ctx.run(census_cases, 'census')
    points = {}
    for c, r in zip(census_cases, res):
        cdp = ((r.get('obs') or {}).get('census_dp')) or {}
        for tname, pts in sorted(cdp.items()):
            points.setdefault((c['kind'], c['flavour']), []).append((tname, pts))
    enum_cases = []
    total = 0
    for (kind, fl), lst in sorted(points.items()):
        for tname, pts in lst:
            uniq, seen = [], set()
            for qn, ln, occ, idx, pk in pts:
                if occ > 2:
                    continue
                k = (qn, ln, occ, pk)
                if k not in seen:
                    seen.add(k)
                    uniq.append(k)
            total += len(uniq)
            sel = uniq
            if quick:
                byfn = {}
                for k in uniq:
                    byfn.setdefault(k[0], []).append(k)
                sel = []
                for qn in sorted(byfn, key=str):
                    cand = byfn[qn]
                    rng.shuffle(cand)
                    sel.extend(cand[:3])
            for (qn, ln, occ, pk) in sel:
                for rep in range(1 if quick else 3):
                    fault = {'kind': 'terminate', 'thread': tname, 'qualname': qn, 'line': ln, 'occ': occ, 'dpkind': pk}
                    enum_cases.append(mk_case(ctx, kind, fl, rep, fault=fault, timeout=rng.choice([1, 5]),
                                              policy={'kind': 'directed', 'p_stay': rng.choice([0.0, 0.5, 0.9])}, tag='enum'))
    ctx.exhaustive_info = {'space': 'asynchronous-exception delivery points (qualname, line, kind, occurrence<=2) of the victim thread '
                                    'after the constructor returned, per worker class and target', 'points': total,
                           'cases': len(enum_cases), 'complete': not quick}
    ctx.run(enum_cases, 'enumerated-delivery-points')
    # directed: the request arrives while a persistent worker is busy with the first of two queued items, and the child's control
    # thread is descheduled at each of its lines in turn (e.g. between noting the request and raising the exception)
    dcases = []
    for kind in ('pprocess', 'premote'):
        fns = ['ProcessWorker._ctrl_fn'] if kind == 'pprocess' else ['RemoteWorker._ctrl_fn_local', 'RemoteWorker._ctrl_fn_remote']
        for fn2 in fns:
            for occ in range(1, 16):
                dcases.append(mk_case(ctx, kind, 'p-slow2', len(dcases), fault={'kind': 'gate', 'thread': None, 'qualname': 'p_slow', 'occ': 2},
                                      policy={'kind': 'random', 'p_stay': rng.choice([0.0, 0.5, 0.9])}, knobs={}, timeout=5, tag='slow-ctrl',
                                      fault2={'kind': 'stall', 'role': fn2, 'any_thread': True, 'qualname': fn2, 'occ': occ, 'duration': 1.0}))
    ctx.run(dcases, 'slow-control-thread')
    # random instants + random schedules
    n = 1200 if quick else 25000
    rcases = []
    for i in range(n):
        kind = rng.choice(KINDS)
        fl = rng.choice(targets_for(kind))[0]
        pol, knobs = draw_env(rng, tcp=lib.is_remote(kind))
        fault = None
        lst = points.get((kind, fl)) or []
        if lst and lst[0][1]:
            tname, pts = lst[0]
            fault = {'kind': 'terminate', 'thread': tname, 'ndp': pts[rng.randrange(len(pts))][3] + rng.randrange(0, 4)}
        else:
            fault = {'kind': 'gate', 'thread': None, 'nline': rng.randrange(1, 60)}
        fault2 = None
        if lib.base_kind(kind) != 'thread' and rng.random() < 0.35:
            # a slow control thread in the child: descheduled at one of its lines, e.g. between noting the request and raising
            # the exception in the working thread, while the working thread goes on
            fn2 = 'ProcessWorker._ctrl_fn' if lib.base_kind(kind) == 'process' else rng.choice(['RemoteWorker._ctrl_fn_local', 'RemoteWorker._ctrl_fn_remote'])
            fault2 = {'kind': 'stall', 'role': fn2, 'any_thread': True, 'qualname': fn2, 'occ': rng.randrange(1, 14), 'duration': rng.choice([0.2, 1.0])}
        rcases.append(mk_case(ctx, kind, fl, i, fault=fault, policy=pol, knobs=knobs, timeout=rng.choice([1, 5]), tag='random', fault2=fault2))
        if len(rcases) >= 2000:
            ctx.run(rcases, 'random')
            rcases = []
            if ctx.time_left() < 0:
                break
    if rcases:
        ctx.run(rcases, 'random')


def smoke_cases(ctx, n):
    from harness.check import draw_env
    rng = ctx.rng
    out = []
    for i in range(n):
        kind = rng.choice(KINDS)
        fl = rng.choice(targets_for(kind))[0]
        pol, knobs = draw_env(rng, tcp=lib.is_remote(kind))
        out.append(mk_case(ctx, kind, fl, i, fault={'kind': 'gate', 'thread': None, 'nline': rng.randrange(1, 200)},
                           policy=pol, knobs=knobs, tag='smoke'))
    return out
