"""C02 - all worker kinds compute exactly what a direct call would (differential, transport-dependent)."""
from workloads import lib, targets as T
from workloads.probes import PLAIN
from . import common as C

ID = 'C02'
LEVEL = 'exploration'
BUDGET = {'quick': 90, 'thorough': 900}
RULE = ('Cases = target (return value / echo of args+kwargs / raise) x value shapes (None, falsy, nested, custom class, byte '
        'strings from 0 B to 4 MiB straddling the drawn pipe / TCP capacity) x exception classes with arguments x {constructor, '
        'Worker.create} x {run None/True/False, target None}; thread, process and remote worker are created in the same run '
        'under one schedule and compared with the direct call and with each other.')
ASSUMPTIONS = ['fault-free except segmentation, small buffers, latency, a stalled (slow) parent-side receiver thread, the calling process stopped and continued while it receives', 'classes defined in an importable module only '
               '(per-process __main__ re-execution is a stub)']

SIZES = [0, 1, 100, 4095, 4096, 65535, 65536, 65537, 70000, 95232, 100000, 300000, 1 << 20, 4 << 20]
VALUES = [None, 0, '', [], False, 42, 'text', 3.5, [1, [2, [3, {'k': 'v'}]]], {'a': 1, 'b': [None, 0]},
          {'$': 'custom', 'a': 1, 'b': [2]}, {'$': 'tuple', 'items': [1, 'x']}, {'$': 'set', 'items': [1, 2, 3]}]
EXCS = [('ValueError', ['boom']), ('KeyError', ['k']), ('MyError', ['a', 2]), ('ZeroDivisionError', []),
        ('RuntimeError', [[1, 2]])]


def gen_case(ctx, rng, i, tag='random', big_bias=0.35):
    from harness.check import draw_env
    pol, knobs = draw_env(rng, tcp=True)
    r = rng.random()
    if r < big_bias:
        spec = {'fn': 't_return', 'kwargs': {'v': {'$': 'bytes', 'n': rng.choice(SIZES), 'salt': rng.randrange(256)}}}
    elif r < 0.6:
        spec = {'fn': 't_return', 'kwargs': {'v': rng.choice(VALUES)}}
    elif r < 0.8:
        nargs = rng.randrange(0, 4)
        spec = {'fn': 't_echo', 'args': [rng.choice(VALUES[:10]) for _ in range(nargs)],
                'kwargs': {f'k{j}': rng.choice(VALUES[:10]) for j in range(rng.randrange(0, 3))}}
    else:
        e = rng.choice(EXCS)
        spec = {'fn': 't_raise', 'kwargs': {'name': e[0], 'args': e[1]}}
    mode = rng.choice(['run-default'] * 6 + ['run-true', 'run-false', 'target-none', 'target-none-run-false'])
    fault = None
    if rng.random() < 0.35:
        # slow parent-side receiver: the frontend thread of the remote worker is descheduled at a line boundary while it
        # receives / rebuilds the result (the remote process may well be gone by then)
        fault = {'kind': 'stall', 'role': 'RemoteWorker._run_frontend', 'qualname': rng.choice(['recv_msg', 'RemoteWorker._fetch_results']),
                 'occ': rng.randrange(1, 75), 'duration': rng.choice([0.3, 3.0])}
    elif rng.random() < 0.3:
        # the calling process is stopped and continued (job control, a debugger attaching, a frozen container) while the frontend
        # thread of the remote worker is blocked receiving: its system call is interrupted, possibly in the middle of a message
        fault = {'kind': 'stopcont', 'role': 'RemoteWorker._run_frontend', 'on_block': 'recv', 'occ': rng.randrange(1, 10),
                 'duration': rng.choice([0.01, 0.2])}
    factory = rng.choice(['ctor', 'create'])
    return {'kind': 'all', 'spec': spec, 'mode': mode, 'factory': factory, 'order': rng.sample(['thread', 'process', 'remote'], 3),
            'concurrent': rng.random() < 0.5, 'policy': pol, 'knobs': knobs, 'sched_seed': ctx.case_seed(tag, i),
            # how the caller waits: one untimed wait(), a polling loop of timed waits, or polling is_alive() and then wait()
            # process-global history: the other factory (PersistentWorker.create, which every Pool uses) was called for these kinds before
            'prior_persistent_create': rng.sample(['thread', 'process', 'remote'], rng.randrange(0, 3)) if factory == 'create' and rng.random() < 0.5 else [],
            'fault': fault, 'waitstyle': rng.choice(['plain', 'plain', 'poll-wait', 'poll-alive']), 'poll_t': rng.choice([0.02, 0.1, 1.0])}


def direct(spec):
    fn = T.TARGETS[spec['fn']]
    try:
        return ('ok', fn(*spec.get('args', []), **spec.get('kwargs', {})))
    except Exception as e:   # noqa
        return ('exc', e)


class Run:
    def __init__(self, sim, case):
        self.sim = sim
        self.case = case
        self.res = {}
        self.exp = None

    def root(self):
        from pyworkers.worker import Worker, WorkerType
        s, c = self.sim, self.case
        spec = c['spec']
        srv = lib.start_server()
        C.install_fault(s, c.get('fault'))
        mode = c['mode']
        target = T.TARGETS[spec['fn']]
        kw = {}
        if mode == 'run-true':
            kw['run'] = True
        elif mode == 'run-false':
            kw['run'] = False
        elif mode == 'target-none':
            target = None
        elif mode == 'target-none-run-false':
            target = None
            kw['run'] = False
        runs = mode in ('run-default', 'run-true')
        if runs:
            self.exp = direct(spec)
            s.truth.clear()
        else:
            self.exp = ('notrun', None)
        for kind in c.get('prior_persistent_create') or []:
            from pyworkers.persistent import PersistentWorker
            k0 = {'host': srv.addr} if kind == 'remote' else {}
            r0 = lib.call_with_deadline(lambda: PersistentWorker.create(WorkerType[kind.upper()], T.TARGETS['p_square'], **k0), 600.0)
            if r0[0] == 'ok':
                lib.call_with_deadline(r0[1].wait, 600.0)
        workers = {}
        for kind in c['order']:
            args = spec.get('args', [])
            kwargs = spec.get('kwargs', {})
            k2 = dict(kw)
            if kind == 'remote':
                k2['host'] = srv.addr
            st = lib.call_with_deadline(self._create, 600.0, c['factory'], kind, target, args, kwargs, k2)
            if st[0] != 'ok':
                self.res[kind] = {'ctor': st[0], 'exc': type(st[1]).__name__ if st[1] is not None else None}
                continue
            workers[kind] = st[1]
            if not c['concurrent']:
                self._finish(kind, st[1])
        if c['concurrent']:
            for kind, w in workers.items():
                self._finish(kind, w)

    def _create(self, factory, kind, target, args, kwargs, kw):
        from pyworkers.worker import Worker, WorkerType
        if factory == 'create':
            return Worker.create(WorkerType[kind.upper()], target, args=args, kwargs=kwargs, **kw)
        return PLAIN[kind](target, args=args, kwargs=kwargs, **kw)

    def _finish(self, kind, w):
        s = self.sim
        rec = {}
        if self.exp[0] == 'notrun':
            rec['alive_at_once'] = lib.timed(w.is_alive)[1]
        style = self.case.get('waitstyle', 'plain')
        if style == 'plain' or self.exp[0] == 'notrun':
            st = lib.call_with_deadline(w.wait, 3600.0)
        else:
            pt = self.case.get('poll_t', 0.1)
            end = s.now + 120.0

            def poll():
                if style == 'poll-wait':
                    while not w.wait(pt):
                        if s.now > end:
                            return 'poll-deadline'
                    return True
                while w.is_alive():
                    if s.now > end:
                        return 'poll-deadline'
                    s.sleep(pt)
                return w.wait()
            st = lib.call_with_deadline(poll, 3600.0)
            if st == ('ok', 'poll-deadline') or (st[0] == 'ok' and st[1] == 'poll-deadline'):
                st = ('hung', None)
        rec['wait'] = st[0] if st[0] != 'ok' else st[1]
        if st[0] == 'exc':
            rec['wait_exc'] = type(st[1]).__name__
        r4 = lib.read4(w)
        ro = r4.pop('_result_obj', None)
        rec['r4'] = r4
        exp = self.exp
        if exp[0] == 'ok':
            try:
                rec['eq'] = bool(ro == exp[1]) and type(ro) is type(exp[1])
            except Exception:
                rec['eq'] = False
        elif exp[0] == 'exc':
            try:
                e = w.error
                rec['err_eq'] = (type(e) is type(exp[1])) and (e.args == exp[1].args)
            except Exception:
                rec['err_eq'] = False
        self.res[kind] = rec
        if st[0] == 'hung':
            rec['blocked'] = [b for b in s.blocked_report() if b['frames']][:6]

    def obs_summary(self):
        return {'exp': self.exp[0], 'res': {k: {kk: vv for kk, vv in v.items() if kk != 'blocked'} for k, v in self.res.items()}}

    def judge(self, outcome):
        V = []
        s, c = self.sim, self.case
        if outcome in ('hang', 'time-cap'):
            V.append({'clause': 'wait-returns', 'manifestation': 'workload-hang', 'kind': 'all', 'detail': (s.outcome_info or {}).get('blocked')})
            return V
        exp = self.exp
        for kind, rec in sorted(self.res.items()):
            if 'ctor' in rec:
                V.append({'clause': 'constructor', 'kind': kind, 'manifestation': f'ctor-{rec["ctor"]}:{rec.get("exc")}', 'detail': rec})
                continue
            if rec['wait'] == 'hung':
                fr = sorted({f.split(':')[0] for b in rec.get('blocked', []) for f in b['frames'][:1]
                             if b['role'].startswith('child-main') and not b['frames'][0].startswith('RemoteServer')})
                big = isinstance(c['spec'].get('kwargs', {}).get('v'), dict) and c['spec']['kwargs']['v'].get('$') == 'bytes'
                V.append({'clause': 'wait-returns', 'kind': kind, 'manifestation': 'wait-hangs:child-blocked-in:' + ','.join(fr)[:120] +
                          (':big-result' if big else ''), 'detail': rec})
                continue
            if rec['wait'] is not True:
                V.append({'clause': 'wait-returns', 'kind': kind, 'manifestation': f'wait={rec["wait"]}:{rec.get("wait_exc")}', 'detail': rec})
                continue
            r4 = rec['r4']
            bad = [a for a in ('is_alive', 'has_error', 'result', 'error') if isinstance(r4.get(a), dict) and 'RAISED' in r4[a]]
            if bad:
                V.append({'clause': 'outcome', 'kind': kind, 'manifestation': f'accessor-raises:{r4[bad[0]]["RAISED"]}', 'detail': r4})
                continue
            if exp[0] == 'notrun':
                if rec.get('alive_at_once') is not False or r4['has_error'] is not False or not r4['result']['none'] or r4['error'] is not None:
                    V.append({'clause': 'not-run', 'kind': kind, 'manifestation': 'not-run-worker-not-dead-clean', 'detail': rec})
            elif exp[0] == 'ok':
                if r4['has_error'] is not False or r4['error'] is not None or not rec.get('eq'):
                    V.append({'clause': 'equals-direct-call', 'kind': kind,
                              'manifestation': f'returned-value-mismatch:has_error={r4["has_error"]}:eq={rec.get("eq")}', 'detail': rec})
            else:
                if r4['has_error'] is not True or not r4['result']['none'] or not rec.get('err_eq'):
                    V.append({'clause': 'equals-direct-call', 'kind': kind,
                              'manifestation': f'raised-exception-mismatch:has_error={r4["has_error"]}:err_eq={rec.get("err_eq")}', 'detail': rec})
        return V


def make_run(sim, case):
    return Run(sim, case)


def plan(ctx):
    rng = ctx.rng
    n = 1500 if ctx.tier != 'thorough' else 40000
    cases = []
    for i in range(n):
        cases.append(gen_case(ctx, rng, i))
        if len(cases) >= 1500:
            ctx.run(cases, 'differential')
            cases = []
            if ctx.time_left() < 0:
                break
    if cases:
        ctx.run(cases, 'differential')


def smoke_cases(ctx, n):
    return [gen_case(ctx, ctx.rng, i, tag='smoke', big_bias=0.2) for i in range(n)]


def shrink(case):
    c = dict(case)
    if c.get('knobs'):
        yield dict(c, knobs={})
    if c.get('concurrent'):
        yield dict(c, concurrent=False)
    if len(c['order']) > 1:
        for k in c['order']:
            yield dict(c, order=[x for x in c['order'] if x != k])
    if c.get('fault'):
        yield dict(c, fault=None)
    if c.get('waitstyle', 'plain') != 'plain':
        yield dict(c, waitstyle='plain')
