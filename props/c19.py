"""C19 - active_children() tracks exactly the live workers."""
from workloads import lib, targets as T
from workloads.probes import KINDS, PLAIN
from simos.sync import Thread as SimThread
from . import common as C

ID = 'C19'
LEVEL = 'exploration'
BUDGET = {'quick': 90, 'thorough': 900}
RULE = ('Cases = histories of 8-40 (thorough: up to 300) operations from {create (six classes, run / not run), let finish (wait), '
        'terminate, restart, active_children()} issued by 1-3 simulated caller threads, optionally with a prefix inside an '
        'autoclose_active_children() block; directed: restart() descheduled at each of its line boundaries while another thread calls active_children(); interval oracle against the simulated process table.')
ASSUMPTIONS = ['interval oracle: a worker alive during the whole call must be yielded; a yielded worker must not have been observed '
               'dead before the call began']


def gen_case(ctx, rng, i, tag='random', maxops=40):
    from harness.check import draw_env
    nthreads = rng.choice([1, 1, 2, 3])
    remote = rng.random() < 0.35
    kinds = [k for k in KINDS if remote or not lib.is_remote(k)]
    nops = rng.randrange(8, maxops + 1)
    threads = [[] for _ in range(nthreads)]
    for _ in range(nops):
        r = rng.random()
        if r < 0.35:
            k = rng.choice(kinds)
            beh = rng.choice(['quick', 'quick', 'slow', 'notrun'])
            if lib.is_persistent(k) and lib.base_kind(k) != 'thread' and rng.random() < 0.25:
                beh = 'stuck'       # busy with an input that swallows the termination request: only force can stop it
            op = ['create', k, beh]
        elif r < 0.5:
            op = ['wait', rng.randrange(0, 100)]
        elif r < 0.62:
            op = ['terminate', rng.randrange(0, 100)]
        elif r < 0.7:
            op = ['restart', rng.randrange(0, 100), rng.random() < 0.4]      # (.., without force: may be refused)
        else:
            op = ['active']
        threads[rng.randrange(nthreads)].append(op)
    pol, knobs = draw_env(rng, tcp=remote, adversarial_ok=True)
    return {'kind': 'mixed', 'threads': threads, 'remote': remote, 'autoclose_prefix': rng.choice([0, 0, 3, 6]),
            'policy': pol, 'knobs': knobs, 'sched_seed': ctx.case_seed(tag, i)}


class Run:
    def __init__(self, sim, case):
        self.sim = sim
        self.case = case
        self.workers = []        # dicts: w, kind, observed_dead, restarts
        self.V = []
        self.ncalls = 0
        self.final = None
        self.side_hang = False
        C.install_fault(sim, case.get('fault'))

    def viol(self, clause, man, detail=None):
        self.V.append({'clause': clause, 'manifestation': man, 'detail': detail})

    def truly_alive(self, rec):
        w, kind = rec['w'], rec['kind']
        d = w.__dict__
        if '_started' not in d or (lib.base_kind(kind) != 'remote' and d['_started'] and '_child' not in d):
            return False        # being re-initialised by restart(): no claim (the epoch logic skips it anyway)
        if not d['_started']:
            return False
        if lib.base_kind(kind) == 'thread':
            st = d['_child']._st
            return st is not None and st.state in ('runnable', 'blocked', 'new')
        p = self.sim.procs.get(d.get('_pid'))
        if p is None or p is self.sim.root_proc:
            return False
        return p.alive

    def do_active(self):
        from pyworkers.worker import Worker
        s = self.sim
        before = [(r, self.truly_alive(r), r['observed_dead'], r['epoch']) for r in self.workers if r.get('ready')]
        unknown = any(r.get('unknown') for r in self.workers)
        r = lib.call_with_deadline(lambda: list(Worker.active_children()), 600.0)
        self.ncalls += 1
        if r[0] != 'ok':
            import traceback
            tb = ''.join(traceback.format_tb(r[1].__traceback__)[-3:]) if r[0] == 'exc' else None
            self.viol('returns', f'active_children-{r[0]}:{type(r[1]).__name__ if r[1] is not None else None}', tb)
            return
        got = r[1]
        ids = [id(x) for x in got]
        if len(set(ids)) != len(ids):
            self.viol('each-once', 'worker-yielded-twice', [repr(x) for x in got][:6])
        for rec, alive0, dead0, epoch0 in before:
            if epoch0 % 2 == 1:
                continue           # a restart of this worker was in progress when the call began: no claim
            alive1 = self.truly_alive(rec)
            inn = any(x is rec['w'] for x in got)
            if alive0 and alive1 and rec['epoch'] == epoch0 and not inn:
                self.viol('live-workers-yielded', f'live-worker-missing:{rec["kind"]}:restarted={rec["epoch"] > 0}',
                          {'w': repr(rec['w']), 'dead_flag': getattr(rec['w'], '_dead', None), 'registry': len(s.root_proc.registry),
                           'in_registry': any(x is rec['w'] for x in s.root_proc.registry)})
            if inn and dead0 and rec['epoch'] == epoch0 and rec.get('ready'):
                w = rec['w']
                self.viol('dead-workers-dropped', f'dead-worker-yielded:{rec["kind"]}',
                          {'w': repr(w), 'is_alive_now': lib.timed(w.is_alive)[1], '_dead': getattr(w, '_dead', '?'), '_started': getattr(w, '_started', '?'),
                           'epoch': [rec['epoch'], epoch0], 'owner': rec.get('owner'), 'me': s.me().name, 'hist': rec.get('hist')})
        known = {id(r['w']) for r in self.workers}
        for x in got:
            if id(x) not in known and not any(r.get('creating') for r in self.workers):
                self.viol('nothing-else', 'foreign-object-yielded', repr(x))

    def pick(self, idx):
        me = self.sim.me().name
        ready = [r for r in self.workers if r.get('ready') and r.get('owner') == me]
        if not ready:
            return None
        return ready[idx % len(ready)]

    def run_ops(self, ops, host):
        s = self.sim
        for op in ops:
            name = op[0]
            if name == 'create':
                kind, beh = op[1], op[2]
                fn, kw = ('p_slow', {'d': 0.02}) if lib.is_persistent(kind) else \
                    (('t_return', {'v': 1}) if beh != 'slow' else ('t_loop', {'n': 20, 'd': 0.01}))
                if beh == 'stuck':
                    fn, kw = 'p_pool', {}
                extra = {'run': False} if beh == 'notrun' else {}
                rec = {'kind': kind, 'observed_dead': False, 'epoch': 0, 'creating': True, 'w': None, 'owner': s.me().name}
                self.workers.append(rec)
                r = lib.call_with_deadline(lib.make_worker, 600.0, kind, fn, kwargs=dict(kw), host=host, probe=False, **extra)
                rec['creating'] = False
                if r[0] != 'ok':
                    self.workers.remove(rec)
                    import traceback
                    tb = ''.join(traceback.format_tb(r[1].__traceback__)[-4:]) if r[0] == 'exc' else None
                    # a constructor that raises or hangs is not this property's business (C20 decides that): the worker is left out
                    # of the claims.  (Seen in the thorough tier: a thread worker's constructor waiting for ever because its newborn
                    # thread was hit by the WorkerTerminatedError of a terminate() aimed at a *finished* thread worker whose
                    # recycled thread identifier it had inherited - see DESIGN 12.4.)
                    s.probe(f'ctor-{r[0]}:{kind}:{type(r[1]).__name__ if r[1] is not None else None}')
                    if r[0] == 'hung':
                        self.side_hang = True
                    continue
                rec['w'] = r[1]
                rec['ready'] = True
                if lib.is_persistent(kind) and beh != 'notrun':
                    try:
                        r[1].enqueue({'$swallow': True} if beh == 'stuck' else 1)
                    except Exception:
                        pass
            elif name in ('wait', 'terminate', 'restart'):
                rec = self.pick(op[1])
                if rec is None:
                    continue
                w = rec['w']
                rec.setdefault('hist', []).append([name, round(s.now, 3)])
                if name == 'wait':
                    r = lib.call_with_deadline(w.wait, 600.0, timeout=5)
                    rec['hist'].append(['wait->', r[0], lib.safe_repr(r[1]), round(s.now, 3)])
                    if r[0] == 'ok' and r[1] is True:
                        rec['observed_dead'] = True
                elif name == 'terminate':
                    kw = {'timeout': 1}
                    if lib.base_kind(rec['kind']) == 'thread':
                        kw['force'] = False
                    r = lib.call_with_deadline(w.terminate, 600.0, **kw)
                    if r[0] == 'ok' and r[1] is True:
                        rec['observed_dead'] = True
                else:
                    if not lib.is_persistent(rec['kind']) or not w._started:
                        continue
                    rec['epoch'] += 1          # from now on the worker may legitimately be dead or alive
                    rkw = {'force': False} if len(op) > 2 and op[2] else {}
                    r = lib.call_with_deadline(w.restart, 600.0, timeout=1, **rkw)
                    rec['epoch'] += 1
                    if r[0] == 'exc' and isinstance(r[1], RuntimeError) and 'Could not stop' in str(r[1]) and '_started' in w.__dict__:
                        # a refused restart leaves the worker as it was: the same, still running, incarnation
                        s.probe('restart-refused')
                    elif r[0] != 'ok':
                        rec['ready'] = False      # state unknown after a failed / refused restart: no further claims about it
                        rec['unknown'] = True
                    if r[0] == 'ok':
                        rec['observed_dead'] = False
                        try:
                            w.enqueue(2)
                        except Exception:
                            pass
                    elif r[0] == 'hung':
                        bl = [b for b in s.blocked_report() if b['role'].startswith('call_with_deadline')]
                        fr = bl[-1]['frames'][0].split(':')[0] if bl and bl[-1]['frames'] else '?'
                        # (a restart that hangs in the *constructor* of the new incarnation: see above; anywhere else it is C17's)
                        s.probe(f'restart-hung:{rec["kind"]}:blocked@{fr}')
                        self.side_hang = True
            elif name == 'active':
                self.do_active()
            elif name == 'sleep':
                s.sleep(op[1])

    def root(self):
        from pyworkers.worker import Worker, autoclose_active_children
        s, c = self.sim, self.case
        host = None
        if c['remote']:
            srv = lib.start_server()
            host = srv.addr
            self.workers.append({'kind': 'process', 'observed_dead': False, 'epoch': 0, 'w': srv, 'ready': False, 'server': True})
        threads = c['threads']
        pre = c['autoclose_prefix']
        if pre:
            ops = threads[0][:pre]
            threads = [threads[0][pre:]] + threads[1:]
            r = lib.call_with_deadline(self._autoclose_block, 900.0, ops, host)
            if r[0] == 'hung' and (self.side_hang or s.clock_mode == 'adversarial'):
                # liveness is claimed under a responsive clock only.  (Seen with VERIF_SEED=2: the server - itself a registered
                # worker - stalled for 7 s, so that the block's terminate(timeout=0.1) escalated to SIGKILL; the orphaned, stuck
                # backend kept the control socket open and wait(timeout=0.1) on its parent-side worker waited for an answer for ever.)
                s.probe('autoclose-block-hung:' + ('after-a-constructor-hang' if self.side_hang else 'adversarial-clock'))
            elif r[0] != 'ok':
                self.viol('autoclose', f'autoclose-block-{r[0]}:{type(r[1]).__name__ if r[1] is not None else None}')
            else:
                left = [rec['kind'] for rec in self.workers if rec.get('ready') and self.truly_alive(rec)]
                if left and s.clock_mode != 'adversarial':      # liveness clause: responsive clock only
                    self.viol('autoclose', 'live-worker-left-after-autoclose:' + ','.join(sorted(set(left))), left)
            if c['remote']:
                # the block closed the server too (it is a registered worker): start a new one
                srv = lib.start_server()
                host = srv.addr
                self.workers.append({'kind': 'process', 'observed_dead': False, 'epoch': 0, 'w': srv, 'ready': False, 'server': True})
        ths = []
        for ops in threads[1:]:
            t = SimThread(target=self.run_ops, args=(ops, host))
            t.start()
            ths.append(t)
        self.run_ops(threads[0], host)
        for t in ths:
            t.join(900.0)
        # everything has come and gone: nothing may be retained
        for rec in self.workers:
            if rec.get('ready'):
                w = rec['w']
                r = lib.call_with_deadline(w.wait, 600.0, timeout=5)
                if not (r[0] == 'ok' and r[1] is True):
                    kw = {'timeout': 1}
                    if lib.base_kind(rec['kind']) == 'thread':
                        kw['force'] = False
                    lib.call_with_deadline(w.terminate, 600.0, **kw)
        alive = [rec for rec in self.workers if rec.get('w') is not None and (rec.get('unknown') or self.truly_alive(rec) or lib.timed(rec['w'].is_alive)[1] is not False)]
        r = lib.call_with_deadline(lambda: list(Worker.active_children()), 600.0)
        if r[0] == 'ok':
            extra = [x for x in r[1] if not any(x is rec['w'] for rec in alive)]
            if extra:
                self.viol('dead-workers-dropped', 'dead-worker-yielded-at-end', [repr(x) for x in extra][:5])
            reg = list(s.root_proc.registry)
            retained = [x for x in reg if not any(x is rec['w'] for rec in alive)]
            if retained:
                self.viol('nothing-retained', 'registry-retains-dead-workers', len(retained))
            self.final = {'workers': len(self.workers), 'alive_at_end': len(alive), 'registry': len(reg), 'calls': self.ncalls}
        else:
            self.viol('returns', f'final-active_children-{r[0]}')

    def _autoclose_block(self, ops, host):
        from pyworkers.worker import autoclose_active_children
        with autoclose_active_children():
            self.run_ops(ops, host)

    def obs_summary(self):
        return {'final': self.final}

    def judge(self, outcome):
        if outcome in ('hang', 'time-cap'):
            bl = (self.sim.outcome_info or {}).get('blocked') or []
            m = [b for b in bl if b['thread'] == 'm' or b['role'].startswith('call_with_deadline') or b['role'].startswith('Run.')]
            fr = m[-1]['frames'][0].split(':')[0] if m and m[-1]['frames'] else '?'
            return [{'clause': 'no-hang', 'manifestation': f'workload-hang:blocked@{fr}', 'detail': bl}]
        seen, out = set(), []
        for v in self.V:
            k = (v['clause'], v['manifestation'])
            if k not in seen:
                seen.add(k)
                out.append(v)
        return out


def make_run(sim, case):
    return Run(sim, case)


def directed_restart_cases(ctx, rng, quick):
    """one thread restarts a registered persistent worker and is descheduled for a while at the k-th line boundary of restart()
    (k enumerated: before / after the old incarnation is stopped, after the object has been emptied, before it registers
    again ...) while another thread keeps calling active_children()"""
    out = []
    for kind in ('pthread', 'pprocess') + (() if quick else ('premote',)):
        for occ in range(1, 15):
            ops1 = []
            for _ in range(12):
                ops1 += [['sleep', 0.07], ['active']]
            out.append({'kind': 'mixed', 'threads': [[['create', kind, 'slow'], ['restart', 0], ['active']], ops1],
                        'remote': kind == 'premote', 'autoclose_prefix': 0, 'policy': {'kind': 'random', 'p_stay': rng.choice([0.5, 0.9])},
                        'knobs': {}, 'sched_seed': ctx.case_seed('restart-vs-active', kind, occ),
                        'fault': {'kind': 'stall', 'any_thread': True, 'qualname': 'PersistentWorker.restart', 'occ': occ, 'duration': 0.5}})
    return out


def plan(ctx):
    rng = ctx.rng
    quick = ctx.tier != 'thorough'
    n = 1200 if quick else 15000
    ctx.run(directed_restart_cases(ctx, rng, quick), 'restart-vs-active_children')
    cases = []
    for i in range(n):
        cases.append(gen_case(ctx, rng, i, maxops=40 if quick or rng.random() < 0.8 else 300))
        if len(cases) >= 1200:
            ctx.run(cases, 'histories')
            cases = []
            if ctx.time_left() < 0:
                break
    if cases:
        ctx.run(cases, 'histories')


def smoke_cases(ctx, n):
    return [gen_case(ctx, ctx.rng, i, tag='smoke', maxops=16) for i in range(n)]


def shrink(case):
    c = dict(case)
    th = c['threads']
    for ti in range(len(th)):
        for k in range(len(th[ti])):
            nt = [list(x) for x in th]
            del nt[ti][k]
            yield dict(c, threads=nt)
    if c.get('autoclose_prefix'):
        yield dict(c, autoclose_prefix=0)
    if c.get('knobs'):
        yield dict(c, knobs={})
