"""C12 - stopping the server reaps its children and every parent finds out."""
import signal
from workloads import lib, targets as T
from . import common as C

ID = 'C12'
LEVEL = 'exploration'
BUDGET = {'quick': 100, 'thorough': 900}
RULE = ('Cases = 0-4 remote children in mixed states (cooperative loop, swallowing exceptions, idle persistent worker, already '
        'finished, inside a context; persistent ones optionally with a parent thread blocked in next_result()) x {one-shot, persistent} x stop by server.terminate() or SIGTERM to the server x instant of '
        'the stop (seeded, or directed: while a worker is being started; SIGTERM handled at every line boundary of the start-up) x schedule.')
ASSUMPTIONS = ['responsive clock; "shortly afterwards" = within 30 simulated seconds']

STATES = ['coop', 'swallow', 'idle-persistent', 'busy-persistent', 'finished', 'in-context']


def gen_case(ctx, rng, i, tag='random'):
    from harness.check import draw_env
    pol, knobs = draw_env(rng, tcp=True)
    children = [rng.choice(STATES) for _ in range(rng.randrange(0, 5))]
    # 'terminate-fast': the graceful request is followed by the forced stop (SIGTERM) after a short timeout, i.e. while the
    # server is still in the middle of its own clean-up (a second stop request overlapping the first)
    stop = rng.choice(['terminate', 'terminate-noforce', 'sigterm', 'terminate-fast'])
    fault = None
    during_start = rng.random() < 0.4
    if during_start:
        # stop the server while it is starting one more worker.  For terminate() the server's main thread is held at the
        # chosen delivery point until the WorkerTerminatedError is pending on it, so that it lands exactly there.
        fault = {'kind': 'terminate' if stop.startswith('terminate') else 'gate', 'role': 'child-main:ProcessWorker._run', 'any_thread': True,
                 'qualname': rng.choice(['RemoteWorker.__setstate__', 'RemoteWorker.__setstate__', 'RemoteServer.run', 'recv_msg', 'send_msg',
                                         'remote_loads', 'PipeEndpoint.recv', 'Pipe.__init__', 'set_keepalive', 'Connection._send_bytes',
                                         'Connection._recv_bytes', 'PipeEndpoint.send', 'PipeEndpoint.close']),
                 'occ': rng.randrange(1, 12)}
    return {'kind': 'server', 'children': children, 'stop': stop, 'fault': fault, 'during_start': during_start,
            'stop_timeout': rng.choice([0, 0.01, 0.05, 0.3]), 'consumers': rng.random() < 0.5,
            'policy': pol, 'knobs': knobs, 'sched_seed': ctx.case_seed(tag, i)}


class Run:
    def __init__(self, sim, case):
        self.sim = sim
        self.case = case
        self.V = []
        self.recs = []
        self.info = {}

    def viol(self, clause, man, detail=None):
        if not any(v['clause'] == clause and v['manifestation'] == man for v in self.V):
            self.V.append({'clause': clause, 'manifestation': man, 'detail': detail, 'kind': 'server'})

    def root(self):
        from pyworkers.remote import RemoteWorker
        from pyworkers.persistent_remote import PersistentRemoteWorker
        from pyworkers.remote_context import RemoteContext
        from simos.shims import sim_kill
        from simos.sync import Thread as SimThread
        s, c = self.sim, self.case
        srv = lib.start_server()
        addr = srv.addr
        sp = s.procs[srv.pid]
        ctx_obj = None
        for st in c['children']:
            kw = {}
            if st == 'coop':
                w = RemoteWorker(T.t_loop, kwargs={'n': 100000, 'd': 0.01}, host=addr)
            elif st == 'swallow':
                w = RemoteWorker(T.t_swallow, host=addr)
            elif st == 'idle-persistent':
                w = PersistentRemoteWorker(T.p_square, host=addr)
            elif st == 'busy-persistent':
                w = PersistentRemoteWorker(T.p_slow, kwargs={'d': 1000.0}, host=addr)
                w.enqueue(1)
            elif st == 'finished':
                w = RemoteWorker(T.t_return, kwargs={'v': 5}, host=addr)
                w.wait(timeout=30)
            else:
                if ctx_obj is None:
                    ctx_obj = RemoteContext(3, host=addr, target=T.t_loop, kwargs={'n': 100000, 'd': 0.01})
                w = RemoteWorker(None, context=3, host=addr)
            self.recs.append({'state': st, 'w': w, 'pid': w.pid})
            if c.get('consumers') and st in ('idle-persistent', 'busy-persistent'):
                # a parent thread consuming results: blocked in next_result() when the server is stopped
                def consume(w=w, rec=self.recs[-1]):
                    try:
                        rec['consumed'] = ['ok', lib.safe_repr(w.next_result())]
                    except BaseException as e:   # noqa
                        rec['consumed'] = ['exc', type(e).__name__]
                th = SimThread(target=consume)
                th.start()
                self.recs[-1]['consumer'] = th
        s.sleep(0.3)
        # install the directed trigger only now, so that it fires while the *next* worker is being started
        late = None
        if c.get('during_start'):
            C.install_fault(s, c['fault'])
            box = {}

            def starter():
                try:
                    box['w'] = RemoteWorker(T.t_loop, kwargs={'n': 100000, 'd': 0.01}, host=addr)
                except BaseException as e:   # noqa
                    box['exc'] = e
            late = SimThread(target=starter)
            late.start()
            s.gate_wait('fault', timeout=5.0)
        if c.get('fault_at_stop'):
            # a second stop request (SIGTERM to the server at the moment its main thread waits for the k-th time for one of its
            # children to end) arriving in the middle of the clean-up that the first request started
            C.install_fault(s, c['fault'])
        descendants_before = [p for p in lib.descendants(s, sp)]
        t0 = s.now
        if c['stop'].startswith('terminate'):
            kwt = {'timeout': 5, 'force': False} if c['stop'] == 'terminate-noforce' else {}
            if c['stop'] == 'terminate-fast':
                kwt = {'timeout': c.get('stop_timeout', 0.05), 'force': True}
            r = lib.call_with_deadline(srv.terminate, 300.0, **kwt)
            self.info['stop'] = [r[0], lib.safe_repr(r[1])]
            if r[0] == 'hung':
                self.viol('server-stops', 'server.terminate-hangs', s.blocked_report()[:6])
                return
        else:
            sim_kill(srv.pid, signal.SIGTERM)
            self.info['stop'] = ['sigterm']
        # every descendant of the server is gone shortly afterwards
        deadline = s.now + 30.0
        while s.now < deadline:
            alive = [p for p in lib.descendants(s, sp) if p.alive]
            if not alive and not sp.alive:
                break
            s.sleep(0.25)
        alive = [p for p in lib.descendants(s, sp) if p.alive]
        if sp.alive:
            # which child keeps it (the interpreter joins its non-daemon child processes at exit)?
            bl = [b for b in s.blocked_report() if b['thread'] == sp.main.name]
            exiting = bool(bl) and any('join-proc' in str(b['on']) or 'shutdown-join' in str(b['on']) for b in bl)
            self.viol('server-stops', f'server-still-alive:{c["stop"]}:' + ('exiting-but-joining-an-orphaned-child' if exiting else 'still-serving'),
                      bl[:1])
        if alive:
            kinds = sorted({self.state_of(p) for p in alive})
            cls = 'helper-or-other' if kinds == ['helper-or-other'] else 'established-children'
            self.viol('children-reaped', f'children-left-after-{c["stop"]}:{cls}', {'states': kinds, 'procs': [p.name for p in alive]})
        self.info['reap_time'] = round(s.now - t0, 3)
        if late is not None:
            late.join(600.0)
            if late.is_alive():
                self.viol('parents-informed', 'constructor-of-worker-being-started-hangs', s.blocked_report()[:5])
            elif 'w' in box:
                self.recs.append({'state': 'starting', 'w': box['w'], 'pid': box['w'].pid})
        # every parent-side worker finds out without blocking
        for rec in self.recs:
            th = rec.pop('consumer', None)
            if th is not None:
                th.join(30.0)
                if th.is_alive():
                    self.viol('parents-informed', f'consumer-still-blocked-in-next_result-after-server-stop:{rec["state"]}', s.blocked_report()[:8])
        for rec in self.recs:
            w = rec['w']
            r = lib.call_with_deadline(w.wait, 300.0, timeout=10)
            if r[0] == 'hung':
                self.viol('parents-informed', f'wait-blocks-after-server-stop:{rec["state"]}', s.blocked_report()[:16])
                continue
            if r[0] != 'ok' or r[1] is not True:
                self.viol('parents-informed', f'worker-not-dead-after-server-stop:{rec["state"]}:{r[0]}:{lib.safe_repr(r[1])}', None)
                continue
            r4 = lib.read4(w)
            ro = r4.pop('_result_obj', None)
            rec['r4'] = r4
            if any(isinstance(r4.get(a), dict) and 'RAISED' in r4[a] for a in ('is_alive', 'has_error', 'result', 'error')):
                self.viol('parents-informed', f'accessor-raises-after-server-stop:{rec["state"]}', r4)
                continue
            if rec['state'] == 'finished':
                if r4['has_error'] is not False or ro != 5:
                    self.viol('finished-keep-outcome', 'finished-worker-lost-its-result', r4)
                continue
            if r4['has_error'] is not True:
                self.viol('parents-informed', f'has_error={r4["has_error"]}-after-server-stop:{rec["state"]}', r4)
            elif r4['error'] is not None and r4['error']['type'] != C.WTE:
                self.viol('parents-informed', f'unexpected-error-type:{r4["error"]["type"]}:{rec["state"]}', r4)
        for rec in self.recs:
            rec.pop('w', None)

    def state_of(self, p):
        for rec in self.recs:
            if rec.get('pid') == p.pid:
                return rec['state']
        return 'helper-or-other'

    def obs_summary(self):
        return {'info': self.info, 'recs': [{k: v for k, v in r.items() if k != 'w'} for r in self.recs][:5]}

    def judge(self, outcome):
        if outcome == 'caller-killed':
            k = C.caller_killed_by_other(self.sim)
            if k is not None:
                return [{'clause': 'parents-informed', 'manifestation': f'calling-process-killed-by-signal-from:{k["tag"] or k["proc"]}:{k["role"]}',
                         'detail': k, 'kind': 'server'}]
        if outcome in ('hang', 'time-cap', 'spin'):
            return [{'clause': 'parents-informed', 'manifestation': f'workload-{outcome}', 'detail': self.sim.outcome_info, 'kind': 'server'}]
        return self.V


def make_run(sim, case):
    return Run(sim, case)


def plan(ctx):
    rng = ctx.rng
    n = 1200 if ctx.tier != 'thorough' else 25000
    # directed: SIGTERM handled by the server's main thread exactly at the k-th line boundary of its start-up of one more worker
    # (the handler runs between two statements of RemoteWorker.__setstate__: before / after the backend exists, before / after
    # its pid is known, ...), with 0-2 established children
    cases = []
    for k in range(1, 46):
        for nch in ((0, 2) if ctx.tier == 'thorough' else (k % 3,)):
            cases.append({'kind': 'server', 'children': [['coop', 'idle-persistent'][j % 2] for j in range(nch)], 'stop': 'sigterm',
                          'fault': {'kind': 'gate', 'hold': True, 'role': 'child-main:ProcessWorker._run', 'any_thread': True,
                                    'qualname': 'RemoteWorker.__setstate__', 'occ': k},
                          'during_start': True, 'stop_timeout': 0, 'consumers': False, 'policy': {'kind': 'directed', 'p_stay': 0.9},
                          'knobs': {}, 'sched_seed': ctx.case_seed('sigterm-at-line', k, nch)})
    ctx.run(cases, 'sigterm-at-each-line-of-worker-start-up')
    # directed: a forced stop overlapping the graceful one - the second request arrives while the server (or a context helper,
    # whose server is gone by then) is in the middle of its own clean-up loop
    from harness.check import draw_env
    cases = []
    for k in range(160 if ctx.tier != 'thorough' else 1500):
        pol, knobs = draw_env(rng, tcp=True)
        ch = ['in-context'] + [rng.choice(STATES) for _ in range(rng.randrange(0, 3))]
        rng.shuffle(ch)
        cases.append({'kind': 'server', 'children': ch, 'stop': 'terminate-fast', 'fault': None, 'during_start': False,
                      'stop_timeout': rng.choice([0, 0.005, 0.01, 0.02, 0.05, 0.1, 0.3]), 'consumers': rng.random() < 0.3,
                      'policy': pol, 'knobs': knobs, 'sched_seed': ctx.case_seed('overlapping-stops', k)})
    for chs in (['in-context'], ['busy-persistent', 'in-context'], ['in-context', 'in-context', 'coop'], ['swallow', 'in-context']):
        for stop in ('terminate-noforce', 'terminate'):
            for occ in range(1, 9 if ctx.tier == 'thorough' else 7):
                cases.append({'kind': 'server', 'children': chs, 'stop': stop, 'during_start': False, 'fault_at_stop': True,
                              'fault': {'kind': 'sigterm', 'role': 'child-main:ProcessWorker._run', 'proc_tag': 'server', 'on_block': 'join-proc', 'occ': occ},
                              'stop_timeout': 0, 'consumers': False, 'policy': {'kind': 'random', 'p_stay': rng.choice([0.5, 0.9, 0.99])},
                              'knobs': {}, 'sched_seed': ctx.case_seed('sigterm-during-cleanup', stop, occ, len(chs))})
    ctx.run(cases, 'overlapping-stop-requests')
    cases = []
    for i in range(n):
        cases.append(gen_case(ctx, rng, i))
        if len(cases) >= 1200:
            ctx.run(cases, 'configurations')
            cases = []
            if ctx.time_left() < 0:
                break
    if cases:
        ctx.run(cases, 'configurations')


def smoke_cases(ctx, n):
    return [gen_case(ctx, ctx.rng, i, 'smoke') for i in range(n)]


def shrink(case):
    c = dict(case)
    ch = c['children']
    for k in range(len(ch)):
        yield dict(c, children=ch[:k] + ch[k + 1:])
    if c.get('knobs'):
        yield dict(c, knobs={})
    if c.get('during_start'):
        yield dict(c, during_start=False, fault=None)
