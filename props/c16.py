"""C16 - user_state is synchronised child-to-parent at end of life, and only then."""
import copy
from workloads import lib, targets as T
from workloads.probes import KINDS
from . import common as C

ID = 'C16'
LEVEL = 'fault_enumeration'
BUDGET = {'quick': 90, 'thorough': 900}
RULE = ('Cases = worker class x init_state (None, scalar, container, custom object) x 0-10 child-side assignments (before / after '
        'the target) x ending (return, exception, graceful terminate at an enumerated delivery point) x chain of up to 3 restarts / '
        're-creations passing the state on x parent reads at scheduler-chosen instants x schedule.')
ASSUMPTIONS = ['"the child reported" is recognised on the parent side by a non-fabricated final outcome (error object or success)']

STATES = [None, 0, 7, 'txt', [1, 2], {'a': [1]}, {'$': 'custom', 'a': 1, 'b': 'x'}, {'$': 'bytes', 'n': 300000}]


def mk_case(ctx, rng, i, kind=None, ending=None, fault=None, policy=None, knobs=None, tag='random'):
    from harness.check import draw_env
    kind = kind or rng.choice(KINDS)
    if policy is None:
        policy, knobs = draw_env(rng, tcp=lib.is_remote(kind))
    nb, na = rng.randrange(0, 6), rng.randrange(0, 6)
    vals = [rng.choice(STATES[1:]) for _ in range(nb + na)]
    if fault is None and lib.is_remote(kind) and rng.random() < 0.4:
        # slow parent-side frontend thread: stalled while it fetches the final result / state
        fault = {'kind': 'stall', 'role': 'RemoteWorker._run_frontend', 'any_thread': True,
                 'qualname': rng.choice(['RemoteWorker._fetch_results', 'PersistentRemoteWorker._fetch_results', 'recv_msg']),
                 'occ': rng.randrange(1, 6), 'duration': rng.choice([0.05, 0.5, 3.0])}
    return {'kind': kind, 'init': rng.choice(STATES), 'before': vals[:nb], 'after': vals[nb:],
            'ending': ending or rng.choice(['return', 'return', 'exception', 'terminate']), 'fault': fault,
            'chain': rng.randrange(0, 3), 'items': rng.randrange(1, 3), 'policy': policy, 'knobs': knobs or {},
            'observe': rng.choice(['wait', 'poll-wait', 'poll-wait'] if lib.is_remote(kind) else ['wait', 'wait', 'poll-wait']),
            'poll_timeout': rng.choice([0, 0, 0.001, 0.01, 0.05]), 'blind_restart': rng.random() < 0.4,
            'sched_seed': ctx.case_seed(tag, i)}


class Run:
    def __init__(self, sim, case):
        self.sim = sim
        self.case = case
        self.V = []
        self.steps = []
        if case.get('census'):
            C.install_census(sim)
        C.install_fault(sim, case.get('fault'))

    def viol(self, clause, man, detail=None):
        self.V.append({'clause': clause, 'manifestation': man, 'detail': detail})

    def root(self):
        s, c = self.sim, self.case
        kind = c['kind']
        host = lib.start_server().addr if lib.is_remote(kind) else None
        pers = lib.is_persistent(kind)
        init = T.make_value(c['init'])
        us = {'before': [T.make_value(v) for v in c['before']], 'after': [T.make_value(v) for v in c['after']]}
        ending = c['ending']
        if pers:
            fn, kw = ('p_poison', {'poison': [2] if ending == 'exception' else []})
        elif ending == 'exception':
            fn, kw = 't_raise', {'name': 'ValueError', 'args': ['x']}
        elif ending == 'terminate':
            fn, kw = 't_loop', {'n': 40, 'd': 0.01}
        else:
            fn, kw = 't_return', {'v': 1}
        kw = dict(kw, _user_states=us)
        r = lib.call_with_deadline(lib.make_worker, 600.0, kind, fn, kwargs=kw, host=host, init_state=copy.deepcopy(init))
        if r[0] != 'ok':
            return
        w = r[1]
        s.census_mark = 1
        s.tlog('ctor-returned')
        state_now = init
        mark = 0
        for gen in range(c['chain'] + 1):
            # parent-side assignment is rejected
            try:
                w.user_state = 'parent-wrote-this'
                self.viol('parent-cannot-assign', 'parent-assignment-accepted')
            except RuntimeError:
                pass
            except Exception as e:   # noqa
                self.viol('parent-cannot-assign', f'parent-assignment-raises:{type(e).__name__}')
            if pers:
                for x in range(c['items']):
                    try:
                        w.enqueue(x + 1 if ending != 'exception' else 2)
                    except Exception:
                        pass
            blind = bool(c.get('blind_restart') and pers and gen < c['chain'] and ending in ('return', 'exception') and c.get('observe') != 'poll-wait')
            # reads while alive
            for k in range(0 if blind else 2):
                v = w.user_state
                left = [e for e in s.truth[mark:] if e['kind'] == 'run-left' and (not pers or e['how'] == 'raise')]
                if not left and lib.base_kind(kind) != 'thread' and v != state_now:
                    self.viol('initial-while-alive', f'parent-sees-other-value-while-alive:{lib.base_kind(kind)}',
                              {'seen': lib.safe_repr(v), 'initial': lib.safe_repr(state_now)})
                s.sleep(0.004 * (k + 1))
            if ending == 'terminate' and gen == 0 and not c.get('census'):
                s.gate_wait('fault', timeout=5.0)
                kwt = {'timeout': 2}
                if lib.base_kind(kind) == 'thread':
                    kwt['force'] = False
                r = lib.call_with_deadline(w.terminate, 600.0, **kwt)
            if c.get('observe') == 'poll-wait':
                # the usual polling loop: while not w.wait(timeout=small): ...
                r = ('ok', False)
                for _ in range(2000):
                    r = lib.call_with_deadline(w.wait, 600.0, timeout=c.get('poll_timeout', 0.01))
                    if r[0] != 'ok' or r[1] is True:
                        break
                    s.sleep(0.001)
            else:
                r = lib.call_with_deadline(w.wait, 600.0, timeout=10)
            if not (r[0] == 'ok' and r[1] is True):
                s.probe('not-dead')
                return
            if c.get('observe') == 'poll-wait':
                got_now = w.user_state        # observed dead: must be synchronised already
                r4 = lib.read4(w)
                r4.pop('_result_obj', None)
                reported = (r4.get('has_error') is False) or (r4.get('has_error') is True and r4.get('error') is not None)
                sets = [e for e in s.truth[mark:] if e['kind'] == 'user-state-set']
                last = sets[-1]['value'] if sets else state_now
                if r4.get('is_alive') is not False:
                    self.viol('synchronised-at-end', f'is_alive-true-right-after-wait-returned-True:{lib.base_kind(kind)}', r4)
                    return
                if reported and got_now != last:
                    self.viol('synchronised-at-end', f'state-not-synchronised-when-wait-returned-True:{lib.base_kind(kind)}',
                              {'got': lib.safe_repr(got_now), 'last': lib.safe_repr(last)})
                    return
            s.sleep(0.05)
            sets = [e for e in s.truth[mark:] if e['kind'] == 'user-state-set']
            last = sets[-1]['value'] if sets else state_now
            if blind:
                # the caller only waited: it reads neither the outcome nor the state before restarting (the state must be
                # carried over all the same - "restart() starts the new incarnation from the last synchronised state")
                s.probe('blind-restart')
                state_now = last
                mark = mark2 = len(s.truth)
                r = lib.call_with_deadline(w.restart, 600.0, timeout=2)
                if r[0] != 'ok':
                    self.viol('restart', f'restart-{r[0]}:{type(r[1]).__name__ if r[1] is not None else None}')
                    return
                try:
                    w.enqueue(1)
                except Exception:
                    pass
                ending = 'return'
                ent = []
                for _ in range(200):
                    ent = [e for e in s.truth[mark2:] if e['kind'] == 'run-enter']
                    if ent:
                        break
                    s.sleep(0.01)
                if ent and ent[0].get('state') != state_now:
                    self.viol('next-incarnation-starts-from-synced', f'new-incarnation-state-differs:{lib.base_kind(kind)}:after-unobserved-end',
                              {'child_saw': lib.safe_repr(ent[0].get('state')), 'synced': lib.safe_repr(state_now)})
                    return
                continue
            r4 = lib.read4(w)
            r4.pop('_result_obj', None)
            reported = (r4.get('has_error') is False) or (r4.get('has_error') is True and r4.get('error') is not None)
            got = w.user_state
            self.steps.append({'gen': gen, 'reported': reported, 'nsets': len(sets), 'r4': r4})
            if reported:
                if got != last:
                    self.viol('synchronised-at-end', f'parent-state!=last-child-assignment:{lib.base_kind(kind)}:{"persistent" if pers else "oneshot"}:has_error={r4.get("has_error")}',
                              {'got': lib.safe_repr(got), 'last': lib.safe_repr(last), 'nsets': len(sets), 'r4': r4, 'landings': s.landings[-2:]})
                    return
                state_now = last
            else:
                s.probe('no-report')
                if c['ending'] == 'terminate' and gen == 0 and not C.kills_seen(s) and sets and got != last:
                    # a graceful terminate is an ending that lets the worker report: nothing killed the child, it ended through
                    # the exception - yet the parent neither learned the outcome nor the state the child had assigned
                    self.viol('synchronised-at-end', f'no-report-after-graceful-terminate:{lib.base_kind(kind)}:{C.cause(s)}',
                              {'got': lib.safe_repr(got), 'last': lib.safe_repr(last), 'nsets': len(sets), 'r4': r4, 'landings': s.landings[-2:]})
                    return
                state_now = got
            # the worker has ended: assignment from the parent side is still rejected - also when it is made by a thread started
            # after the worker's death (which may have been handed the recycled identifier of a dead worker thread)
            def assign():
                w.user_state = 'parent-wrote-this-after-the-end'
            fresh = gen % 2 == 0
            r = lib.call_with_deadline(assign, 600.0) if fresh else lib.timed(assign)
            if r[0] == 'ok':
                self.viol('parent-cannot-assign', f'parent-assignment-accepted-after-the-end:{"fresh-thread" if fresh else "caller-thread"}:{lib.base_kind(kind)}')
                return
            if r[0] == 'exc' and not isinstance(r[1], RuntimeError):
                self.viol('parent-cannot-assign', f'parent-assignment-after-the-end-raises:{type(r[1]).__name__}')
            if gen == c['chain']:
                break
            # next incarnation
            mark = mark2 = len(s.truth)
            if pers:
                r = lib.call_with_deadline(w.restart, 600.0, timeout=2)
                if r[0] != 'ok':
                    self.viol('restart', f'restart-{r[0]}:{type(r[1]).__name__ if r[1] is not None else None}')
                    return
                try:
                    w.enqueue(1)
                except Exception:
                    pass
            else:
                r = lib.call_with_deadline(lib.make_worker, 600.0, kind, 't_return', kwargs={'v': 1, '_user_states': us}, host=host,
                                           init_state=w.user_state)
                if r[0] != 'ok':
                    return
                w = r[1]
            ending = 'return'
            # first state observed by the new incarnation
            for _ in range(200):
                ent = [e for e in s.truth[mark2:] if e['kind'] == 'run-enter']
                if ent:
                    break
                s.sleep(0.01)
            if ent and ent[0].get('state') != state_now:
                self.viol('next-incarnation-starts-from-synced', f'new-incarnation-state-differs:{lib.base_kind(kind)}',
                          {'child_saw': lib.safe_repr(ent[0].get('state')), 'synced': lib.safe_repr(state_now)})
                return

    def obs_summary(self):
        d = {'steps': self.steps[:3]}
        if self.case.get('census'):
            d['census_dp'] = C.census_points(self.sim.census_dp)
        return d

    def judge(self, outcome):
        if outcome in ('hang', 'time-cap'):
            return [{'clause': 'no-hang', 'manifestation': 'workload-hang', 'detail': (self.sim.outcome_info or {}).get('blocked')}]
        seen, out = set(), []
        for v in self.V:
            k = (v['clause'], v['manifestation'])
            if k not in seen:
                seen.add(k)
                out.append(v)
        return out


def make_run(sim, case):
    return Run(sim, case)


def plan(ctx):
    rng = ctx.rng
    quick = ctx.tier != 'thorough'
    census = []
    for kind in KINDS:
        c = mk_case(ctx, rng, len(census), kind=kind, ending='terminate', policy={'kind': 'cooperative'}, knobs={}, tag='census')
        c['census'] = True
        c['chain'] = 0
        census.append(c)
    res = ctx.run(census, 'census')
    pts = {}
    for c, r in zip(census, res):
        cdp = ((r.get('obs') or {}).get('census_dp')) or {}
        for tname, p in sorted(cdp.items()):
            pts.setdefault(c['kind'], []).append((tname, p))
    cases = []
    total = 0
    for kind, lst in sorted(pts.items()):
        for tname, p in lst:
            uniq, seen = [], set()
            for qn, ln, occ, idx, pk in p:
                if occ > 2:
                    continue
                k = (qn, ln, occ, pk)
                if k not in seen:
                    seen.add(k)
                    uniq.append(k)
            total += len(uniq)
            sel = uniq
            if quick:
                rng.shuffle(sel)
                sel = sel[:40]
            for (qn, ln, occ, pk) in sel:
                c = mk_case(ctx, rng, len(cases), kind=kind, ending='terminate',
                            fault={'kind': 'terminate', 'thread': tname, 'qualname': qn, 'line': ln, 'occ': occ, 'dpkind': pk},
                            policy={'kind': 'directed', 'p_stay': rng.choice([0.0, 0.5, 0.9])}, knobs={}, tag='enum')
                cases.append(c)
    ctx.exhaustive_info = {'space': 'terminate delivery points of the child, per worker class', 'points': total, 'cases': len(cases),
                           'complete': not quick}
    ctx.run(cases, 'enumerated-terminate-points')
    # directed: a final report larger than 16 KiB is written by multiprocessing.Connection as two writes (header, payload);
    # graceful terminate released at the delivery points inside that code
    big = {'$': 'bytes', 'n': 300000}
    dl = []
    for kind in ('process', 'pprocess'):
        tname = (pts.get(kind) or [('m.0.0', None)])[0][0]
        for qn in ('Connection._send_bytes', 'Connection._send'):
            for occ in range(4, 20):
                c = mk_case(ctx, rng, len(dl), kind=kind, ending='terminate',
                            fault={'kind': 'terminate', 'thread': tname, 'qualname': qn, 'occ': occ},
                            policy={'kind': 'directed', 'p_stay': rng.choice([0.0, 0.5, 0.9])}, knobs={'pipe_cap': 1 << 20}, tag='large-report')
                c['after'] = [big]
                c['before'] = [7]
                c['chain'] = 0
                dl.append(c)
    ctx.run(dl, 'terminate-inside-the-two-write-report')
    n = 1500 if quick else 20000
    rc = []
    for i in range(n):
        c = mk_case(ctx, rng, i)
        if c['ending'] == 'terminate':
            lst = pts.get(c['kind']) or []
            if lst and lst[0][1]:
                tname, p = lst[0]
                c['fault'] = {'kind': 'terminate', 'thread': tname, 'ndp': rng.randrange(1, p[-1][3] + 5)}
            else:
                c['fault'] = {'kind': 'gate', 'thread': None, 'nline': rng.randrange(1, 80)}
        rc.append(c)
        if len(rc) >= 1500:
            ctx.run(rc, 'random')
            rc = []
            if ctx.time_left() < 0:
                break
    if rc:
        ctx.run(rc, 'random')


def smoke_cases(ctx, n):
    out = []
    for i in range(n):
        c = mk_case(ctx, ctx.rng, i, tag='smoke')
        if c['ending'] == 'terminate':
            c['fault'] = {'kind': 'gate', 'thread': None, 'nline': ctx.rng.randrange(1, 80)}
        out.append(c)
    return out


def shrink(case):
    c = dict(case)
    if c['chain']:
        yield dict(c, chain=c['chain'] - 1)
    if c['before']:
        yield dict(c, before=c['before'][:-1])
    if c['after']:
        yield dict(c, after=c['after'][:-1])
    if c.get('knobs'):
        yield dict(c, knobs={})
