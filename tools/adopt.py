"""adopt a replay file produced by a check as a known finding:
   adopt.py <replay.json> <what fails> [--pattern REGEX]"""
import sys, json, os, shutil, re
rp, what = sys.argv[1], sys.argv[2]
pat = None
if '--pattern' in sys.argv:
    pat = sys.argv[sys.argv.index('--pattern') + 1]
V = os.path.dirname(os.path.dirname(os.path.abspath(__file__)))
doc = json.load(open(rp))
name = os.path.basename(rp)
dst = os.path.join(V, 'findings', 'replays', name)
shutil.copy(rp, dst)
kf = os.path.join(V, 'findings', 'known_findings.json')
lst = json.load(open(kf))
lst = [e for e in lst if e.get('signature') != doc['signature']]
e = {'property': doc['property'], 'signature': doc['signature'], 'status': 'known', 'what_fails': what,
     'replay': os.path.relpath(dst, V)}
if pat:
    e['signature_pattern'] = pat
    assert re.fullmatch(pat, doc['signature']), 'pattern does not match the signature'
lst.append(e)
json.dump(lst, open(kf, 'w'), indent=1)
print('adopted', doc['signature'])
