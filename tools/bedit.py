"""binary-safe exact replacement preserving CRLF: bedit.py file old.txt new.txt (old/new given with \n newlines)"""
import sys
p, oldf, newf = sys.argv[1:4]
b = open(p, 'rb').read()
crlf = b'\r\n' in b
old = open(oldf, 'rb').read()
new = open(newf, 'rb').read()
if crlf:
    old = old.replace(b'\r\n', b'\n').replace(b'\n', b'\r\n')
    new = new.replace(b'\r\n', b'\n').replace(b'\n', b'\r\n')
assert b.count(old) == 1, f'old text found {b.count(old)} times'
open(p, 'wb').write(b.replace(old, new))
