"""Generate /verif/MANIFEST.json from the table below (keeps the manifest valid and consistent)."""
import json
import os

V = os.path.dirname(os.path.dirname(os.path.abspath(__file__)))
TECH = 'deterministic simulation (simos: seeded scheduler + simulated OS) with fault injection; '

CHECKS = {
    'C01': ('fault_enumeration', '5 C01',
            'Enumerates every asynchronous-exception delivery point (terminate) and every line boundary (SIGKILL/SIGTERM) of the '
            'child run loop for all six worker classes x 15/5 target flavours, plus kills while blocked writing an oversized '
            'result, plus seeded random schedules; oracle: shape / definiteness / stability / never-raises of the four accessors '
            'after death, checked against an omniscient ground-truth log.',
            TECH + 'census + directed landing-point enumeration + seeded random schedules; ground-truth oracle'),
}
NA = {
    'C13': 'pure function of the input object graph / class hierarchy: no schedule, clock, fault, I/O or second party for a '
           'simulator to control (DESIGN.md section 6)',
    'C14': 'pure function of the graph shape; the per-thread stack it mentions lives inside one call (DESIGN.md section 6); '
           'its shapes are used as workload for C15 only',
}
PENDING = 'check not built yet (work in progress in this session)'


def main():
    props = [json.loads(l) for l in open(os.path.join(V, 'properties.jsonl'))]
    checks = []
    na = []
    for p in props:
        pid = p['id']
        if pid in CHECKS:
            level, dref, text, tech = CHECKS[pid]
            checks.append({
                'property_id': pid,
                'quick_cmd': f'./check {pid} --tier quick',
                'thorough_cmd': f'./check {pid} --tier thorough',
                'evidence_file': f'evidence/{pid}.json',
                'replay_cmd_template': f'./check {pid} --replay {{path}}',
                'engine': 'simos',
                'level_claimed': {'category': level, 'text': text, 'design_ref': 'DESIGN.md section ' + dref},
                'level_note': 'Trusted base: simos (simulated scheduler, processes, pipes, TCP, signals, clock; validated by the '
                              'conformance suite against this kernel / CPython 3.12), the ground-truth probes, the oracle. '
                              'Schedules are sampled (seeded); only the sub-spaces named exhaustive in the evidence are complete.',
                'technique': tech,
            })
        elif pid in NA:
            na.append({'property_id': pid, 'reason': NA[pid]})
        else:
            na.append({'property_id': pid, 'reason': PENDING})
    m = {
        'version': 1,
        'setup_cmd': './selftest setup',
        'hooks': {'guard': 'PYWORKERS_VERIF',
                  'enable': 'no source hooks: the harness replaces module-level imports of the pyworkers modules (threading, mp, '
                            'socket, os, time, signal, ctypes, ...) with simos facades at run time; shipped code is unchanged',
                  'baseline_off_cmd': 'cd /repo && /venv/bin/python -m pytest -ra -q -p no:cacheprovider --timeout=900 '
                                      '--continue-on-collection-errors',
                  'source_commits': [], 'add_only': True},
        'engines': [{'name': 'simos', 'path': 'simos/', 'serves_properties': sorted(CHECKS),
                     'kind_free_text': 'in-process deterministic OS simulator (baton-passing host threads, sys.monitoring '
                                       'pre-emption, simulated processes / pipes / TCP / signals / clock) + fork-per-run driver'}],
        'checks': checks,
        'not_applicable': na,
        'notes': 'All checks: exit 0 = held (KNOWN-FINDING lines for listed findings), 1 = VIOLATION line with replay file, '
                 '2 = HARNESS-ERROR (never counts as a pass). Known findings: findings/known_findings.json.',
    }
    with open(os.path.join(V, 'MANIFEST.json'), 'w') as f:
        json.dump(m, f, indent=1)
    print('checks:', [c['property_id'] for c in checks], 'n/a:', [x['property_id'] for x in na])


if __name__ == '__main__':
    main()
