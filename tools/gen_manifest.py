"""Generate /verif/MANIFEST.json from the table below (keeps the manifest valid and consistent)."""
import json
import os

V = os.path.dirname(os.path.dirname(os.path.abspath(__file__)))
TECH = 'deterministic simulation (simos: seeded scheduler + simulated OS) with fault injection; '

E = TECH + 'seeded search over scenarios x schedules x faults; '
F = TECH + 'census run + complete enumeration of a finite fault space (landing / kill / cut points) + seeded schedules; '
CHECKS = {
    'C01': ('fault_enumeration', '5 C01',
            'Enumerates every asynchronous-exception delivery point (terminate) and every line boundary (SIGKILL/SIGTERM) of the '
            'child run loop for all six worker classes x 15/5 target flavours, kills while blocked writing an oversized result, '
            'plus seeded random schedules; oracle: shape / definiteness / stability / never-raises of the four accessors after '
            'death, checked against an omniscient ground-truth log.', F + 'ground-truth oracle'),
    'C02': ('exploration', '5 C02',
            'Differential: thread, process and remote worker created in the same simulated run for generated targets / values '
            '(0 B - 4 MiB straddling the drawn pipe and TCP capacities) and compared with the direct call and with each other, '
            'waited for by one untimed wait(), by a polling loop of timed waits or by polling is_alive(), optionally with the '
            'parent-side receiver thread stalled; a wait() that never returns is a verdict (quiescence / simulated deadline).', E + 'differential oracle vs direct call'),
    'C03': ('fault_enumeration', '5 C03',
            'One graceful terminate released exactly when the victim thread is at each enumerated delivery point (function entry, '
            'after a C call, backward jump, return of a blocking call) from constructor-returned to exit, six classes x cooperative '
            'targets; oracle: terminated-or-own outcome, finally marker written by the target thread, terminate() True in time.',
            F + 'landing-site ground truth'),
    'C04': ('exploration', '5 C04',
            'Histories of wait/terminate/is_alive/close on cooperative, exception-swallowing, sleeping, interpreter-lock-holding, '
            'SIGSTOPped, lingering (result delivered, process still alive), finished and never-run workers under both clock modes; oracle: simulated-time bound, truthfulness against '
            'the simulated process table, idempotence on dead workers, forced kill.', E + 'simulated clock + process table oracle'),
    'C05': ('exploration', '5 C05',
            'Model-based: histories of enqueue / next_result / results_iter / call / close / wait on the three persistent kinds '
            'with list or tuple defaults and argument-mutating targets, optionally with the caller stalled at a line inside the API '
            'call (slow caller) and a directed close-then-consume family; every value compared with a list model on pristine copies.',
            E + 'reference (list) model'),
    'C06': ('fault_enumeration', '5 C06',
            'terminate / SIGKILL / SIGTERM / poison item at every enumerated point of the child loop and child kill at every line of '
            'the parent-side forwarding thread, three consumers (next_result loop, results_iter, raw wait+recv multiplexer); oracle: '
            'delivered values are a prefix of the expected sequence and the stream always ends - also for a consumer that is already blocked on the stream when the fault happens or when a stuck worker is stopped by force.', F + 'prefix + end-of-stream oracle'),
    'C07': ('exploration', '5 C07',
            'Pool.run on 1-3 real persistent workers of mixed kinds with poison inputs, worker-specific failures, SIGKILL at seeded '
            'and directed instants (inside the pool bookkeeping functions), refusing enqueue_fn, extra pending 0-2; oracle: multiset '
            'equality, only PoolError, termination (hang and busy-loop detection).', E + 'multiset oracle + spin/hang detection'),
    'C08': ('exploration', '5 C08',
            'Same space x retry on/off x return_results on/off x surviving worker; oracle: PoolError implies every worker dead in '
            'the process table, partial results genuine and unique, missing inputs explained by probe-recorded hand-outs.',
            E + 'process-table + ground-truth oracle'),
    'C09': ('exploration', '5 C09',
            'Pool life-cycle histories (add / attach / run / run with an input fatal to every worker / restart_workers with and '
            'without stuck workers / kill / stuck worker (optionally after an un-rebuildable result) / KeyboardInterrupt inside run / failing registration or construction / exception in with-body / close / '
            'terminate) x close_timeout x force; oracle: no child process survives the pool (pool workers and the whole process '
            'table), old children gone after a successful restart, per-run result multisets, nothing leaked by failed add_worker.', E + 'process-table oracle over histories'),
    'C10': ('fault_enumeration', '5 C10',
            'send_msg/recv_msg over a scripted transport: every segmentation of short streams, every single / near-boundary double '
            'cut, 1-byte reads, every truncation offset x {FIN, RST}; plus sender and receiver threads on simulated TCP with seeded '
            'segmentation, latency, small buffers, peer close at an offset, and handled signals arriving while the sender is '
            'blocked mid-message (short send counts).', F + 'sequence-equality / prompt-error oracle'),
    'C11': ('fault_enumeration', '5 C11',
            'Real server on simos; the byte stream of a well-behaved client (recorded in the same run) replayed by a raw-socket '
            'client and cut at enumerated offsets with FIN/RST, plus faulty control-handshake steps, with a concurrent healthy '
            'worker and sequences of faulty clients, server started with and without close_on_none; oracle: server alive, a fresh plain round trip and a fresh request of the '
            'faulty client\'s kind (same context) succeed after every fault.',
            F + 'liveness oracle (fresh round trip within a simulated deadline)'),
    'C12': ('exploration', '5 C12',
            '0-4 remote children in mixed states (persistent ones optionally with a parent thread blocked in next_result()), stop by terminate() or SIGTERM at seeded / directed instants (SIGTERM handled at every line boundary of a worker start-up, a second stop while the server waits for a child inside its clean-up); oracle: the calling process is never signalled, all descendants of the server gone from the process table, every parent-side worker dead with '
            'has_error True without blocking, finished workers keep their outcome.', E + 'process-table oracle'),
    'C15': ('exploration', '5 C15',
            'Histories of remote_pickle.loads with patches on generated object graphs, some calls failing part-way (truncated stream, '
            'raising __setstate__), with concurrent loads on other simulated threads interleaved at line level; differential oracle '
            'against the un-patched load, a reference model of the patch rule, and the same call on a brand-new thread.',
            E + 'differential + reference model'),
    'C16': ('fault_enumeration', '5 C16',
            'Probe subclasses assign user_state before/after the target; endings return / exception / terminate at enumerated '
            'delivery points; chains of restarts / re-creations; oracle: parent sees the initial value until the child reports, the '
            'last child assignment afterwards, parent assignment rejected, next incarnation starts from the synchronised value.',
            F + 'state model vs ground truth'),
    'C17': ('exploration', '5 C17',
            'restart() of persistent workers in states never-used / unread results / queued inputs / closed / died / killed / busy / stuck, '
            '1-3 consecutive restarts, with and without caller-supplied pipe; oracle: live equivalent worker, new identity, old child '
            'gone from the process table, fresh stream of fresh unique inputs only, RuntimeError only when unstoppable.',
            E + 'process-table + fresh-stream oracle'),
    'C18': ('exploration', '5 C18',
            'Histories over context ids {1,2,3} (create, duplicate, delete, delete unknown, repeated close / wait / terminate on '
            'handles of deleted contexts whose id was registered again, workers in known / unknown contexts, enqueue, wait) on the real server and real context helper processes; dictionary model of the context table plus a fresh '
            'round trip after every operation.', E + 'reference (dictionary) model'),
    'C19': ('exploration', '5 C19',
            'Histories of create / wait / terminate / restart / active_children() from 1-3 simulated caller threads with an optional '
            'autoclose block, stuck workers and refused restarts, restart() descheduled at each of its lines while another thread calls active_children(); interval oracle against the simulated process table, registry must not retain dead workers.',
            E + 'interval oracle'),
    'C20': ('fault_enumeration', '5 C20',
            'Scripted server peer cutting both handshake messages at enumerated offsets with FIN/RST, refused control connection, '
            'unknown context, spawn failure, server / child killed at every line reached during the constructor (lines of the '
            'stdlib Connection code included), the server process worker itself killed at every line of its start-up; oracle: constructor '
            'returns or raises within a simulated deadline, id names a started child, failed construction leaves no process.',
            F + 'hang = simulated deadline / quiescence'),
}
NA = {
    'C13': 'pure function of the input object graph / class hierarchy: no schedule, clock, fault, I/O or second party for a '
           'simulator to control (DESIGN.md section 6)',
    'C14': 'pure function of the graph shape; the per-thread stack it mentions lives inside one call (DESIGN.md section 6); '
           'its shapes are used as workload for C15 only',
}
PENDING = 'check not built yet (work in progress in this session)'


def main():
    props = [json.loads(l) for l in open(os.path.join(V, 'properties.jsonl'))]
    checks = []
    na = []
    for p in props:
        pid = p['id']
        if pid in CHECKS:
            level, dref, text, tech = CHECKS[pid]
            checks.append({
                'property_id': pid,
                'quick_cmd': f'./check {pid} --tier quick',
                'thorough_cmd': f'./check {pid} --tier thorough',
                'evidence_file': f'evidence/{pid}.json',
                'replay_cmd_template': f'./check {pid} --replay {{path}}',
                'engine': 'simos',
                'level_claimed': {'category': level, 'text': text, 'design_ref': 'DESIGN.md section ' + dref},
                'level_note': 'Trusted base: simos (simulated scheduler, processes, pipes, TCP, signals, clock; validated by the '
                              'conformance suite against this kernel / CPython 3.12), the ground-truth probes, the oracle. '
                              'Schedules are sampled (seeded); only the sub-spaces named exhaustive in the evidence are complete.',
                'technique': tech,
            })
        elif pid in NA:
            na.append({'property_id': pid, 'reason': NA[pid]})
        else:
            na.append({'property_id': pid, 'reason': PENDING})
    m = {
        'version': 1,
        'setup_cmd': './selftest setup',
        'hooks': {'guard': 'PYWORKERS_VERIF',
                  'enable': 'no source hooks: the harness replaces module-level imports of the pyworkers modules (threading, mp, '
                            'socket, os, time, signal, ctypes, ...) with simos facades at run time; shipped code is unchanged',
                  'baseline_off_cmd': 'cd /repo && /venv/bin/python -m pytest -ra -q -p no:cacheprovider --timeout=900 '
                                      '--continue-on-collection-errors',
                  'source_commits': [], 'add_only': True},
        'engines': [{'name': 'simos', 'path': 'simos/', 'serves_properties': sorted(CHECKS),
                     'kind_free_text': 'in-process deterministic OS simulator (baton-passing host threads, sys.monitoring '
                                       'pre-emption, simulated processes / pipes / TCP / signals / clock; stdlib queue / Condition / Connection '
                                       'Python code runs under it) + fork-per-run driver'}],
        'checks': checks,
        'not_applicable': na,
        'notes': 'All checks: exit 0 = held (KNOWN-FINDING lines for listed findings), 1 = VIOLATION line with replay file, '
                 '2 = HARNESS-ERROR (never counts as a pass). Known findings: findings/known_findings.json.',
    }
    with open(os.path.join(V, 'MANIFEST.json'), 'w') as f:
        json.dump(m, f, indent=1)
    print('checks:', [c['property_id'] for c in checks], 'n/a:', [x['property_id'] for x in na])


if __name__ == '__main__':
    main()
