#!/bin/sh
# usage: tools/confirm_mutant.sh <scratch worktree with mutant.diff applied + demo.py> [pytest files...]
# Confirms a seeded change: demo exits 1 with it / 0 without it; the existing tests (minus the two test_loop helpers, which are
# collected by accident and time out by design) give the same verdict with it.  Prints one summary line.
D=$1; shift
FILES=${*:-tests}
cd "$D" || exit 2
git apply -R --check mutant.diff 2>/dev/null || { echo "$D: mutant not applied"; exit 2; }
PYTHONPATH=$D timeout 300 /venv/bin/python demo.py > .confirm_demo_mut.log 2>&1; m=$?
git apply -R mutant.diff
PYTHONPATH=$D timeout 300 /venv/bin/python demo.py > .confirm_demo_orig.log 2>&1; o=$?
git apply mutant.diff
PYTHONPATH=$D timeout 1500 /venv/bin/python -m pytest $FILES -q -p no:cacheprovider --timeout=120 \
   --deselect tests/terminate_test.py::test_loop --deselect tests/terminate_server_test.py::test_loop > .confirm_tests.log 2>&1
t=$(tail -1 .confirm_tests.log)
f=$(grep -c "^FAILED" .confirm_tests.log)
echo "$D: demo mutant=$m orig=$o | tests: $t | failed: $(grep '^FAILED' .confirm_tests.log | sed 's/.*:://' | tr '\n' ' ')"
