"""keep a confirmed seeded change: keep_seeded.py <src dir> <name> <property> <needs> <caught_by> <ran>"""
import sys, os, json, shutil
src, name, prop, needs, caught, ran = sys.argv[1:7]
V = os.path.dirname(os.path.dirname(os.path.abspath(__file__)))
d = os.path.join(V, 'seeded', name)
os.makedirs(d, exist_ok=True)
shutil.copy(os.path.join(src, 'mutant.diff'), os.path.join(d, 'patch.diff'))
for f in ('demo.py', 'NOTES.md'):
    if os.path.exists(os.path.join(src, f)):
        shutil.copy(os.path.join(src, f), os.path.join(d, f))
meta = {'property': prop, 'breaks': prop, 'needs_to_manifest': needs, 'author': 'independent sub-agent (given the property text only)',
        'confirmed': ran, 'caught_by': caught}
json.dump(meta, open(os.path.join(d, 'meta.json'), 'w'), indent=1)
print('kept', d)
