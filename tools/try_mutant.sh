#!/bin/sh
# usage: tools/try_mutant.sh <patch.diff> <tier> <ID> [<ID> ...]
# Applies the patch to a scratch worktree of /repo HEAD (never to /repo itself), runs the listed checks against it
# (VERIF_REPO=<scratch>), prints their verdict lines, removes the scratch worktree.
set -u
PATCH=$(readlink -f "$1"); TIER=$2; shift 2
D=$(mktemp -d /tmp/sens_XXXXXX)
rmdir "$D"
git -C /repo worktree add -q "$D" HEAD || exit 2
if ! git -C "$D" apply "$PATCH"; then echo "PATCH DOES NOT APPLY"; git -C /repo worktree remove --force "$D"; exit 2; fi
cd /verif
rc=0
for ID in "$@"; do
  out=$(VERIF_REPO="$D" ./check "$ID" --tier "$TIER" --no-evidence 2>&1)
  echo "$out" | grep -E "^VIOLATION|signature:|^$ID:|HARNESS-ERROR" | cut -c1-260
  echo "$out" | grep -q "^VIOLATION" && rc=1
done
git -C /repo worktree remove --force "$D"
exit $rc
