"""simos kernel objects: descriptors, byte streams, unix socket pairs (mp.Pipe), TCP sockets, sentinels.

Semantics are pinned to what Linux does for AF_UNIX / AF_INET stream sockets (checked by
conformance/ against the real kernel).
"""
import errno
from .core import WaitQ

ECONNRESET = errno.ECONNRESET
EPIPE = errno.EPIPE

SHUT_RD, SHUT_WR, SHUT_RDWR = 0, 1, 2


def _oserr(e):
    if e == errno.ETIMEDOUT:
        return TimeoutError(e, 'Connection timed out')
    if e in (errno.EHOSTUNREACH, errno.ENETUNREACH):
        return OSError(e, 'No route to host')
    if e == ECONNRESET:
        return ConnectionResetError(e, 'Connection reset by peer')
    if e == EPIPE:
        return BrokenPipeError(e, 'Broken pipe')
    return OSError(e, 'error')


class OFD:
    """open file description (reference counted by descriptors in all fd tables + in-flight tokens)"""
    kind = 'ofd'

    def __init__(self):
        self.refs = 0
        self.label = None

    def on_last_close(self, sim):
        pass

    def readable(self, sim):
        return False


class Stream:
    """one direction of a connection"""
    __slots__ = ('buf', 'cap', 'rq', 'wq', 'inflight_bytes', 'latency', 'last_deliver', 'written', 'read',
                 'discard', 'tap_label')

    def __init__(self, cap, latency=0.0):
        self.buf = bytearray()
        self.cap = cap
        self.rq = WaitQ()
        self.wq = WaitQ()
        self.inflight_bytes = 0
        self.latency = latency
        self.last_deliver = 0.0
        self.written = 0
        self.read = 0
        self.discard = False      # reader is gone: arriving data is dropped
        self.tap_label = None


class Sock(OFD):
    kind = 'sock'

    def __init__(self, family):
        super().__init__()
        self.family = family      # 'tcp' | 'unix'
        self.state = 'new'        # new | bound | listening | connected | closed
        self.laddr = None
        self.raddr = None
        self.rx = None
        self.tx = None
        self.peer = None
        self.backlog = None
        self.accept_q = WaitQ()
        self.linger = None        # (onoff, seconds)
        self.shut_rd = False
        self.shut_wr = False
        self.fin_rcvd = False     # peer's FIN arrived
        self.err = None           # pending socket error (reported once)
        self.dead = False         # connection torn down (RST seen)
        self.fin_sent = False
        self.rst_pending = False
        self.timeout = None

    def readable(self, sim):
        if self.state == 'listening':
            return bool(self.backlog)
        if self.state != 'connected':
            return True
        return bool(self.rx.buf) or self.shut_rd or self.fin_rcvd or self.err is not None or self.dead

    def on_last_close(self, sim):
        st = self.state
        self.state = 'closed'
        if st == 'listening':
            sim.listeners.pop(self.laddr, None)
            for srv in self.backlog:
                # un-accepted connections are reset
                srv.state = 'closed'
                _send_rst(sim, srv)
            self.backlog = []
            sim.wake_q(self.accept_q)
            return
        if st != 'connected':
            return
        peer = self.peer
        rx, tx = self.rx, self.tx
        unread = bool(rx.buf) or rx.inflight_bytes > 0
        rx.discard = True
        if self.family == 'tcp':
            abort = unread or (self.linger is not None and self.linger[0] and self.linger[1] == 0)
            if self.dead:
                pass
            elif abort:
                _send_rst(sim, self)
            elif not self.fin_sent:
                self.fin_sent = True
                _send_fin(sim, self)
        else:
            peer.fin_rcvd = True
            if unread:
                peer.err = ECONNRESET
            sim.wake_q(tx.rq)
        sim.wake_q(rx.wq)
        sim.wake_q(rx.rq)
        sim.wake_q(tx.wq)


class Sentinel(OFD):
    kind = 'sentinel'

    def __init__(self, proc):
        super().__init__()
        self.proc = proc

    def readable(self, sim):
        return not self.proc.alive


# ------------------------------------------------------------------------------ fd tables
def install(proc, ofd):
    fd = proc.next_fd
    proc.next_fd += 1
    proc.fds[fd] = ofd
    ofd.refs += 1
    return fd


def lookup(proc, fd):
    try:
        return proc.fds[fd]
    except KeyError:
        raise OSError(errno.EBADF, 'Bad file descriptor') from None


def close_fd(sim, proc, fd):
    ofd = proc.fds.pop(fd, None)
    if ofd is None:
        raise OSError(errno.EBADF, 'Bad file descriptor')
    unref(sim, ofd)


def unref(sim, ofd):
    ofd.refs -= 1
    if ofd.refs == 0:
        ofd.on_last_close(sim)


def close_all_fds(sim, proc):
    fds = sorted(proc.fds)
    for fd in fds:
        ofd = proc.fds.pop(fd)
        unref(sim, ofd)
    for tok, ofd in sorted(proc.tokens.items()):
        unref(sim, ofd)
    proc.tokens.clear()


# ------------------------------------------------------------------------------ stream helpers
def _deliver_at(sim, s):
    if not s.latency:
        return None
    t = max(sim.now + s.latency, s.last_deliver)
    s.last_deliver = t
    return t


def _put(sim, s, data):
    """writer side: data accepted by the kernel"""
    s.written += len(data)
    if sim.tap is not None and s.tap_label is not None:
        sim.tap.setdefault(s.tap_label, bytearray()).extend(data)
    when = _deliver_at(sim, s)
    if when is None:
        if not s.discard:
            s.buf += data
        sim.wake_q(s.rq)
    else:
        s.inflight_bytes += len(data)
        b = bytes(data)

        def arrive(s=s, b=b):
            s.inflight_bytes -= len(b)
            if not s.discard:
                s.buf += b
            sim.wake_q(s.rq)
            sim.wake_q(s.wq)
        sim.add_timer(when, arrive)


def _send_fin(sim, sock):
    peer = sock.peer
    s = sock.tx
    when = _deliver_at(sim, s)

    def arrive():
        peer.fin_rcvd = True
        sim.wake_q(s.rq)
    if when is None:
        arrive()
    else:
        sim.add_timer(when, arrive)


def _send_rst(sim, sock):
    """sock aborts the connection: the peer sees queued data, then ECONNRESET; peer writes fail"""
    peer = sock.peer
    s = sock.tx
    when = _deliver_at(sim, s)

    def arrive():
        if peer.state != 'connected' or peer.dead:
            return
        peer.err = EPIPE if peer.fin_rcvd else ECONNRESET
        peer.dead = True
        sim.wake_q(peer.rx.rq)
        sim.wake_q(peer.tx.wq)
    if when is None:
        arrive()
    else:
        sim.add_timer(when, arrive)


def _eof_streak(sim, t):
    # a thread that keeps reading an ended stream makes no progress: classify as spin, not as step-cap
    t.eof_streak = getattr(t, 'eof_streak', 0) + 1
    if t.eof_streak > 2000:
        import sys
        from .core import _fmt_stack
        sim._finish('spin', {'thread': t.name, 'role': t.role, 'why': 'reads an ended stream over and over',
                             'stack': _fmt_stack(sys._getframe(2), short=True)})


# ------------------------------------------------------------------------------ stream I/O
def k_read(sim, sock, n, timeout=None, what='read'):
    t = sim.me()
    sim.yield_(what)
    rx = sock.rx
    tcp = sock.family == 'tcp'
    while True:
        if sock.state != 'connected':
            if sock.state == 'closed':
                raise OSError(errno.EBADF, 'Bad file descriptor')
            raise OSError(errno.ENOTCONN, 'Transport endpoint is not connected')
        if rx.buf:
            k = min(n, len(rx.buf))
            data = bytes(rx.buf[:k])
            del rx.buf[:k]
            rx.read += k
            sim.wake_q(rx.wq)
            sim.ev('read', t.name, sock.label, k)
            t.eof_streak = 0
            return data
        if tcp and sock.fin_rcvd:
            sim.ev('read-eof', t.name, sock.label)
            _eof_streak(sim, t)
            return b''
        if sock.err is not None:
            e = sock.err
            sock.err = None
            sim.ev('read-err', t.name, sock.label, e)
            raise _oserr(e)
        if sock.fin_rcvd or sock.dead or sock.shut_rd:
            sim.ev('read-eof', t.name, sock.label)
            _eof_streak(sim, t)
            return b''
        if timeout is not None and timeout <= 0:
            raise BlockingIOError(errno.EAGAIN, 'Resource temporarily unavailable')
        if not sim.block(t, (rx.rq,), timeout=timeout, what=f'{what}:{sock.label}'):
            if timeout is not None:
                raise TimeoutError('timed out')


def k_read_waitall(sim, sock, n, timeout=None, what='recv'):
    """recv(n, MSG_WAITALL) on a blocking stream socket: returns n bytes unless the stream ends, an error is pending - or the
    call is interrupted after part of the data has been copied: a handled signal on the calling thread, or the whole process
    being stopped and continued (SIGSTOP / SIGCONT wake every thread of the group).  The bytes copied so far are returned then."""
    t = sim.me()
    p = t.proc
    got = bytearray()
    while len(got) < n:
        mark = (p.nstop, t.nsig)
        had = len(got)
        rx = sock.rx
        if had and not rx.buf and sock.state == 'connected' and not (sock.fin_rcvd or sock.dead or sock.shut_rd or sock.err is not None):
            # wait for more data here, so that an interruption is seen before anything else is consumed
            sim.block(t, (rx.rq,), timeout=timeout, what=f'{what}:{sock.label}', deliver=False)
            if (p.nstop, t.nsig) != mark:
                sim.fault('short-recv-waitall-interrupted')
                sim.ev('short-recv', t.name, sock.label, had, n)
                sim.sys_return_point(t)
                break
            continue
        try:
            d = k_read(sim, sock, n - had, timeout=timeout, what=what)
        except OSError:
            if had:
                break
            raise
        if not d:
            break
        got += d
    return bytes(got)


def k_write(sim, sock, data, what='write', partial=False):
    """blocking write of all of data; returns len(data).  Like send(2) on a blocking stream socket, errors are
    checked when the call starts and whenever it has to wait for buffer space - not between the bytes of one
    accepted chunk.  Segmentation only affects how the accepted bytes become visible to the reader."""
    t = sim.me()
    sim.yield_(what)
    tx = sock.tx
    mv = memoryview(data)
    total = len(mv)
    off = 0
    tcp = sock.family == 'tcp'
    seg = sim.knobs.get('segmentation', 0.0) if tcp else 0.0
    check = True
    while True:
        if check:
            check = False
            if sock.state != 'connected':
                if sock.state == 'closed':
                    raise OSError(errno.EBADF, 'Bad file descriptor')
                raise BrokenPipeError(EPIPE, 'Broken pipe')
            if sock.shut_wr:
                raise BrokenPipeError(EPIPE, 'Broken pipe')
            if tcp and sock.err is not None:
                e = sock.err
                sock.err = None
                sim.ev('write-err', t.name, sock.label, e)
                raise _oserr(e)
            if sock.dead:
                sim.ev('write-epipe', t.name, sock.label)
                raise BrokenPipeError(EPIPE, 'Broken pipe')
            if sock.peer.state == 'closed':
                if tcp:
                    # the segment is accepted and answered with RST
                    sim.ev('write-to-closed', t.name, sock.label, total - off)
                    if not sock.rst_pending:
                        sock.rst_pending = True
                        _send_rst(sim, sock.peer)
                    return total
                sim.ev('write-epipe', t.name, sock.label)
                raise BrokenPipeError(EPIPE, 'Broken pipe')
        if off >= total:
            sim.sys_return_point(t)
            return total
        free = tx.cap - len(tx.buf) - tx.inflight_bytes
        if free <= 0:
            # a blocking send / write of one buffer is a single C call: no asynchronous exception is delivered
            # before it completes (only a kill can cut a message short)
            sim.probe('write-blocked-full')
            nsig = t.nsig
            sim.block(t, (tx.wq,), what=f'{what}-full:{sock.label}', deliver=False)
            if partial and off > 0 and t.nsig != nsig:
                # send(2) interrupted by a handled signal after some bytes were queued: the short count is returned
                # (sendall / write of a Connection retry; a bare socket.send() does not)
                sim.fault('short-send-on-signal')
                sim.ev('short-send', t.name, sock.label, off, total)
                sim.sys_return_point(t)
                return off
            check = True
            continue
        end = off + min(free, total - off)
        # the kernel has accepted (copied) bytes off..end in one go: segmentation below only spreads their *arrival*; should the
        # writing process be killed at one of the yields in between, the rest of the accepted chunk is still delivered
        # (Sim._terminate_proc flushes it) - only a write that is waiting for buffer space can be cut short by a kill
        commit = t.pending_commit = [tx, mv, off, end, sock.label]
        while off < end:
            k = end - off
            if seg and k > 1 and sim.frng.random() < seg:
                r = sim.frng.random()
                edge = off < 24 or (total - off) < 24
                if total > 4096 and not edge:
                    # large payloads: keep the number of segments bounded (cuts stay dense near message boundaries)
                    k = sim.frng.randint(min(k, max(1, total // 12)), k)
                elif r < 0.4:
                    k = 1
                elif r < 0.7:
                    k = sim.frng.randint(1, min(k, 8))
                else:
                    k = sim.frng.randint(1, k)
                sim.fault('segmentation')
            _put(sim, tx, mv[off:off + k])
            sim.ev('write', t.name, sock.label, k)
            off += k
            commit[2] = off
            if off >= end:
                t.pending_commit = None
            if off < total:
                sim.yield_('write-seg', deliver=False)
        t.pending_commit = None


def k_shutdown(sim, sock, how):
    if sock.state != 'connected':
        raise OSError(errno.ENOTCONN, 'Transport endpoint is not connected')
    t = sim.me()
    sim.ev('shutdown', t.name if t else None, sock.label, how)
    notconn = sock.family == 'tcp' and (sock.dead or (sock.fin_rcvd and sock.fin_sent))
    if how in (SHUT_RD, SHUT_RDWR):
        sock.shut_rd = True
        sim.wake_q(sock.rx.rq)
    if how in (SHUT_WR, SHUT_RDWR):
        sock.shut_wr = True
        if not sock.fin_sent and not sock.dead:
            sock.fin_sent = True
            if sock.family == 'tcp':
                _send_fin(sim, sock)
            else:
                sock.peer.fin_rcvd = True
                sim.wake_q(sock.tx.rq)
    if notconn:
        raise OSError(errno.ENOTCONN, 'Transport endpoint is not connected')


def inject_conn_error(sim, sock, e=errno.ETIMEDOUT):
    """the connection fails without FIN / RST ever arriving: keep-alive probes time out after the peer host vanished
    or the path broke (ETIMEDOUT / EHOSTUNREACH).  Both directions of this end are dead from now on."""
    if sock.state != 'connected' or sock.dead:
        return False
    sock.err = e
    sock.dead = True
    sim.fault('conn-error:' + errno.errorcode.get(e, str(e)))
    sim.ev('conn-error', sock.label, e)
    sim.wake_q(sock.rx.rq)
    sim.wake_q(sock.tx.wq)
    return True


# ------------------------------------------------------------------------------ construction
def socketpair(sim, cap=None, label=None):
    cap = cap or sim.knobs.get('pipe_cap', 65536)
    a, b = Sock('unix'), Sock('unix')
    s1, s2 = Stream(cap), Stream(cap)
    a.rx, a.tx, b.rx, b.tx = s1, s2, s2, s1
    a.peer, b.peer = b, a
    a.state = b.state = 'connected'
    a.label = f'{label}.a'
    b.label = f'{label}.b'
    return a, b


def tcp_listen(sim, sock):
    if sock.state == 'listening':
        return
    if sock.laddr is None:
        tcp_bind(sim, sock, ('0.0.0.0', 0))
    if sock.laddr in sim.listeners:
        raise OSError(errno.EADDRINUSE, 'Address already in use')
    sock.state = 'listening'
    sock.backlog = []
    sim.listeners[sock.laddr] = sock


def tcp_bind(sim, sock, addr):
    host, port = addr
    if host in ('', '0.0.0.0'):
        host = '0.0.0.0'
    if port == 0:
        sim.next_port += 1 + sim.frng.randrange(0, 5)
        port = sim.next_port
    key = (host, port)
    if key in sim.listeners:
        raise OSError(errno.EADDRINUSE, 'Address already in use')
    sock.laddr = key
    sock.state = 'bound'


def tcp_connect(sim, sock, addr):
    t = sim.me()
    sim.yield_('connect')
    if sock.state not in ('new', 'bound'):
        raise OSError(errno.EISCONN, 'Transport endpoint is already connected')
    host, port = addr
    lst = sim.listeners.get((host, port)) or sim.listeners.get(('0.0.0.0', port))
    hook = sim.knobs.get('_connect_hook')
    if hook is not None and hook(sim, t, addr):
        lst = None
    if lst is None or lst.state != 'listening':
        sim.ev('connect-refused', t.name, port)
        raise ConnectionRefusedError(errno.ECONNREFUSED, 'Connection refused')
    cap = sim.knobs.get('tcp_cap', 212992)
    lat = sim.knobs.get('latency', 0.0)
    srv = Sock('tcp')
    s_c2s, s_s2c = Stream(cap, lat), Stream(cap, lat)
    sock.rx, sock.tx = s_s2c, s_c2s
    srv.rx, srv.tx = s_c2s, s_s2c
    sock.peer, srv.peer = srv, sock
    if sock.laddr is None:
        sim.next_port += 1 + sim.frng.randrange(0, 5)
        sock.laddr = ('127.0.0.1', sim.next_port)
    sock.raddr = (host if host != '0.0.0.0' else '127.0.0.1', port)
    srv.laddr = sock.raddr
    srv.raddr = sock.laddr
    sock.state = srv.state = 'connected'
    n = sim.nconn
    sim.nconn += 1
    sock.label = f'tcp{n}.c'
    srv.label = f'tcp{n}.s'
    s_c2s.tap_label = f'tcp{n}.c2s'
    s_s2c.tap_label = f'tcp{n}.s2c'
    lst.backlog.append(srv)
    sim.ev('connect', t.name, port, sock.label)
    sim.wake_q(lst.accept_q)


def tcp_accept(sim, lst, timeout=None):
    t = sim.me()
    sim.yield_('accept')
    while True:
        if lst.state != 'listening':
            raise OSError(errno.EINVAL, 'Invalid argument')
        if lst.backlog:
            srv = lst.backlog.pop(0)
            sim.ev('accept', t.name, srv.label)
            return srv
        if not sim.block(t, (lst.accept_q,), timeout=timeout, what=f'accept:{lst.laddr}'):
            if timeout is not None:
                raise TimeoutError('timed out')


# ------------------------------------------------------------------------------ poll
def k_wait(sim, proc, items, timeout=None):
    """items: list of (obj, ofd). Returns list of obj whose ofd is ready (all of them, in order)."""
    t = sim.me()
    sim.yield_('wait')
    deadline = None if timeout is None else sim.now + timeout
    while True:
        ready = [obj for obj, ofd in items if ofd.readable(sim)]
        if ready:
            return ready
        if timeout is not None:
            rem = deadline - sim.now
            if rem <= 0:
                return []
        else:
            rem = None
        qs = []
        for obj, ofd in items:
            if ofd.kind == 'sock':
                if ofd.state == 'listening':
                    qs.append(ofd.accept_q)
                elif ofd.rx is not None:
                    qs.append(ofd.rx.rq)
            elif ofd.kind == 'sentinel':
                qs.append(ofd.proc.exit_q)
        sim.block(t, qs, timeout=rem, what='wait')
