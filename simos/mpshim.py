"""multiprocessing replacement: spawn-style processes, Pipe()/Connection, connection.wait."""
import io
import errno
import pickle
import signal as _signal
from multiprocessing.connection import Connection as _Connection
from multiprocessing.reduction import ForkingPickler, register as _register

from . import kernel
from .core import WaitQ, RUNNABLE, BLOCKED, DONE
from .sync import cur_sim


def _dumps(obj):
    """ForkingPickler.dumps without the exported BytesIO buffer (same pickle, default protocol)"""
    buf = io.BytesIO()
    ForkingPickler(buf, None).dump(obj)
    return buf.getvalue()


# ---------------------------------------------------------------------------- Connection
class SimConnection(_Connection):
    """multiprocessing.connection.Connection over a simulated unix socket pair.  Framing, pickling and the
    EOFError / OSError distinctions are the real stdlib code; only byte transport is simulated."""

    def __init__(self, handle, readable=True, writable=True, proc=None):
        sim = cur_sim()
        self._owner = proc if proc is not None else sim.me().proc
        super().__init__(handle, readable, writable)

    def _ofd(self):
        return kernel.lookup(self._owner, self._handle)

    def _sim_write(self, handle, buf):
        sim = cur_sim()
        return kernel.k_write(sim, kernel.lookup(self._owner, handle), buf, what='pipe-write')

    def _sim_read(self, handle, n):
        sim = cur_sim()
        return kernel.k_read(sim, kernel.lookup(self._owner, handle), n, what='pipe-read')

    def send(self, obj):
        """as the stdlib's, but the pickle is handed on as bytes instead of a memoryview of the BytesIO: CPython 3.12 crashes
        (use after free in bytesiobuf_releasebuffer) when the collector meets a garbage cycle holding such a view, which an
        asynchronous exception landing in here can create"""
        self._check_closed()
        self._check_writable()
        self._send_bytes(_dumps(obj))

    def recv(self):
        """as the stdlib's, but unpickling from bytes instead of from a memoryview of the BytesIO (same reason as send(): an
        exception escaping from here - asynchronous, or raised by the unpickling itself - can leave that view in a garbage cycle)"""
        self._check_closed()
        self._check_readable()
        buf = self._recv_bytes()
        return ForkingPickler.loads(buf.getvalue())

    def _send(self, buf, write=None):
        return _Connection._send(self, buf, write=self._sim_write)

    def _recv(self, size, read=None):
        return _Connection._recv(self, size, read=self._sim_read)

    def _close(self, _close=None):
        sim = cur_sim()
        if sim is None or sim.finished:
            return
        if not self._owner.alive:
            return
        try:
            kernel.close_fd(sim, self._owner, self._handle)
        except OSError:
            pass

    def _poll(self, timeout):
        sim = cur_sim()
        r = kernel.k_wait(sim, self._owner, [(self, self._ofd())], timeout)
        return bool(r)

    def __del__(self):
        if self._handle is not None:
            try:
                self._close()
            except Exception:
                pass
            self._handle = None


def _reduce_connection(conn):
    sim = cur_sim()
    ofd = kernel.lookup(conn._owner, conn._handle)
    return _rebuild_connection, (_export(sim, ofd), conn.readable, conn.writable)


def _rebuild_connection(tok, readable, writable):
    sim = cur_sim()
    fd = _import(sim, tok)
    return SimConnection(fd, readable, writable)


def _export(sim, ofd):
    """dup an open file description for transfer to another process; returns a token"""
    me = sim.me()
    child = getattr(me, 'spawning', None)      # per simulated thread: several threads may be spawning at once
    if child is not None:
        # spawn: the descriptor is inherited by the child at once
        fd = kernel.install(child, ofd)
        return ('inherit', child.pid, fd)
    # resource_sharer: the sender keeps a dup until the receiver collects it
    sim.ntok += 1
    tok = sim.ntok
    ofd.refs += 1
    me.proc.tokens[tok] = ofd
    return ('share', me.proc.pid, tok)


def _import(sim, tok):
    me = sim.me()
    kind, pid, x = tok
    if kind == 'inherit':
        if me.proc.pid != pid:
            raise OSError(errno.EBADF, 'inherited descriptor used in the wrong process')
        return x
    owner = sim.procs.get(pid)
    ofd = owner.tokens.pop(x, None) if owner is not None else None
    if ofd is None:
        raise ConnectionRefusedError(errno.ECONNREFUSED, 'resource sharer of the sending process is gone')
    fd = kernel.install(me.proc, ofd)
    ofd.refs -= 1      # the sharer's dup is closed after the transfer
    return fd


_register(SimConnection, _reduce_connection)


def Pipe(duplex=True):
    sim = cur_sim()
    me = sim.me()
    sim.npipe += 1
    a, b = kernel.socketpair(sim, label=f'pipe{sim.npipe}')
    c1 = SimConnection(kernel.install(me.proc, a))
    c2 = SimConnection(kernel.install(me.proc, b))
    return c1, c2


def wait(object_list, timeout=None):
    sim = cur_sim()
    me = sim.me()
    items = []
    for o in object_list:
        fd = o if isinstance(o, int) else o.fileno()
        items.append((o, kernel.lookup(me.proc, fd)))
    return kernel.k_wait(sim, me.proc, items, timeout)


class _ConnectionModule:
    wait = staticmethod(wait)
    Connection = SimConnection
    Pipe = staticmethod(Pipe)


# ---------------------------------------------------------------------------- Process
class SimProcess:
    """multiprocessing.Process (spawn) replacement"""

    def __init__(self, group=None, target=None, name=None, args=(), kwargs=None, *, daemon=None):
        self._target = target
        self._args = tuple(args)
        self._kwargs = dict(kwargs or {})
        self._name = name or 'Process'
        self.daemon = bool(daemon)
        self._proc = None
        self._sentinel = None
        self._parent = None
        self._reaped = False

    @property
    def name(self):
        return self._name

    def run(self):
        if self._target:
            self._target(*self._args, **self._kwargs)

    def __getstate__(self):
        return {'_target': self._target, '_args': self._args, '_kwargs': self._kwargs, '_name': self._name,
                'daemon': self.daemon}

    def __setstate__(self, st):
        self.__dict__.update(st)
        self._proc = None
        self._sentinel = None
        self._parent = None
        self._reaped = False

    def start(self):
        sim = cur_sim()
        me = sim.me()
        if self._proc is not None:
            raise AssertionError('cannot start a process twice')
        hook = sim.knobs.get('_spawn_hook')
        if hook is not None:
            hook(sim, me, self)         # may raise OSError (spawn-fails) or sleep (spawn-delay)
        sd = sim.knobs.get('spawn_delay')
        if sd and sim.frng.random() < 0.5:
            sim.fault('spawn-delay')
            sim.sleep(sd * sim.frng.random())
        child = sim.new_proc(f'{me.name}.{me.nspawn}', me.proc)
        child.name_hint = self._name
        me.spawning = child
        try:
            blob = _dumps(self)
        except BaseException:
            me.spawning = None
            kernel.close_all_fds(sim, child)
            child.state = 'reaped'
            child.exitcode = 1
            raise
        me.spawning = None
        st = sim.new_thread(child, lambda: _child_main(sim, child, blob), name=f'{child.name}',
                            role='child-main:' + (getattr(self._target, '__qualname__', '') or ''))
        me.nspawn += 1
        sim.ev('spawn', me.name, child.name, child.pid)
        sim.tlog('spawn', child=child.pid, name=self._name)
        sim.start_thread(st)
        # The new process exists, but the caller is still inside Popen.__init__ (handing the pickled process object to the new
        # interpreter through a pipe): like the real Process object this one has no pid and is_alive() is False until that is
        # over (`self._popen = ...` is the last thing start() does before its bookkeeping) - the child may well be running by then.
        try:
            sim.yield_('proc-start')
        except BaseException:
            # the launch was interrupted (a signal handler that raises, an asynchronous exception): a child that has not received
            # its complete pickle dies of the truncated stream; one that has carries on, unknown to this Process object
            if child.alive and not getattr(child, 'unpickled', False):
                sim.ev('spawn-truncated', child.name)
                sim.probe('spawn-interrupted:child-dies-of-truncated-pickle')
                sim.exit_proc(child, 1)
            else:
                sim.probe('spawn-interrupted:child-lives-on')
            raise
        self._proc = child
        self._parent = me.proc
        me.proc.children.append(self)
        self._sentinel = kernel.install(me.proc, kernel.Sentinel(child))

    @property
    def pid(self):
        return self._proc.pid if self._proc is not None else None

    @property
    def ident(self):
        return self.pid

    @property
    def sentinel(self):
        if self._sentinel is None:
            raise ValueError('process not started')
        return self._sentinel

    @property
    def exitcode(self):
        if self._proc is None:
            return None
        self._poll()
        return self._proc.exitcode if self._reaped else None

    def _poll(self):
        p = self._proc
        if p is not None and not p.alive and not self._reaped:
            self._reaped = True
            if p.state == 'zombie':
                p.state = 'reaped'
            try:
                self._parent.children.remove(self)
            except ValueError:
                pass

    def is_alive(self):
        if self._proc is None:
            return False
        self._check_owner()
        self._poll()
        return self._proc.alive

    def _check_owner(self):
        sim = cur_sim()
        me = sim.me()
        if me is not None and self._parent is not None and me.proc is not self._parent:
            raise AssertionError('can only test a child process')

    def join(self, timeout=None):
        sim = cur_sim()
        me = sim.me()
        if self._proc is None:
            raise AssertionError('can only join a started process')
        self._check_owner()
        p = self._proc
        deadline = None if timeout is None else sim.now + timeout
        sim.yield_('proc-join')
        while p.alive:
            rem = None if deadline is None else deadline - sim.now
            if rem is not None and rem <= 0:
                break
            sim.block(me, (p.exit_q,), timeout=rem, what=f'join-proc:{p.name}')
        self._poll()

    def terminate(self):
        self._kill(_signal.SIGTERM)

    def kill(self):
        self._kill(_signal.SIGKILL)

    def _kill(self, sig):
        from .shims import sim_kill
        if self._proc is None:
            raise AttributeError("'NoneType' object has no attribute 'terminate'")
        if self._reaped:
            return
        try:
            sim_kill(self._proc.pid, sig)
        except ProcessLookupError:
            pass

    def close(self):
        pass


def _child_main(sim, proc, blob):
    """runs in the main thread of the new simulated process (spawn bootstrap)"""
    code = 0
    me = sim.me()
    me.no_async = True       # the interpreter bootstrap / shutdown code is not a landing place we model
    try:
        try:
            obj = pickle.loads(blob)
            del blob
            proc.unpickled = True
            sim.ev('child-unpickled', proc.name)
            try:
                me.no_async = False
                obj.run()
            finally:
                me.no_async = True
                proc.run_done = True       # the process object's run() is over; the interpreter may still join children / threads
                _exit_function(sim, proc)
        except SystemExit as e:
            c = e.code
            code = 0 if c is None else (c if isinstance(c, int) else 1)
        except BaseException as e:   # noqa
            code = 1
            from .core import _innermost_frame
            sim.tlog('child-main-exception', exc=type(e).__name__, msg=str(e)[:200], pid_=proc.pid, where=_innermost_frame(e))
            sim.ev('child-exc', proc.name, type(e).__name__)
    finally:
        me.no_async = True
        _thread_shutdown(sim, proc)
    sim.exit_proc(proc, code)


def _exit_function(sim, proc):
    """multiprocessing.util._exit_function: terminate daemonic children, join the others"""
    for h in list(proc.children):
        if h.daemon and h.is_alive():
            h.terminate()
    for h in list(proc.children):
        h.join()


def _thread_shutdown(sim, proc):
    """threading._shutdown: join non-daemon threads"""
    me = sim.me()
    for t in list(proc.threads):
        if t is me or t.daemon:
            continue
        while t.state in (RUNNABLE, BLOCKED):
            sim.block(me, (t.done_q,), what=f'shutdown-join:{t.name}')


class _SpawnContext:
    Process = SimProcess
    Pipe = staticmethod(Pipe)


class MPFacade:
    connection = _ConnectionModule
    Pipe = staticmethod(Pipe)
    Process = SimProcess

    @staticmethod
    def get_context(method=None):
        return _SpawnContext

    @staticmethod
    def active_children():
        sim = cur_sim()
        me = sim.me()
        return [h for h in list(me.proc.children) if h.is_alive()]
