"""simos core: deterministic scheduler, simulated threads / processes, discrete-event clock.

One `Sim` is one simulated world and lives in one (freshly forked) OS process.  Every simulated
thread is a real host thread, but exactly one of them runs at any time (baton passing).  All
context switches are decided by `Sim.policy` from the single PRNG `Sim.rng`.
"""
import sys
import _thread
import threading as _real_threading
import heapq
import hashlib
import random
import types
import traceback

RUNNABLE, BLOCKED, DONE, FROZEN, NEW = 'runnable', 'blocked', 'done', 'frozen', 'new'

TOOL_ID = 3  # sys.monitoring tool id used by simos


class SimAbort(BaseException):
    """Raised inside a simulated thread that must unwind silently (not used for kills)."""


class RunOver(BaseException):
    pass


class WaitQ:
    """A set of blocked threads waiting for "something changed" on an object."""
    __slots__ = ('threads',)

    def __init__(self):
        self.threads = []

    def add(self, t):
        self.threads.append(t)

    def discard(self, t):
        try:
            self.threads.remove(t)
        except ValueError:
            pass


class SimThread:
    def __init__(self, sim, proc, name, fn, daemon=False, role=None):
        self.sim = sim
        self.proc = proc
        self.name = name              # stable creation-path name
        self.fn = fn
        self.daemon = daemon
        self.role = role or name
        self.state = NEW
        self.baton = _thread.allocate_lock()
        self.baton.acquire()
        self.ready = _thread.allocate_lock()
        self.ready.acquire()
        self.real_ident = None
        self.ident = None             # simulated python ident
        self.native_id = None
        self.pending_exc = None       # asynchronous exception (PyThreadState_SetAsyncExc)
        self.nline = 0                # number of LINE events seen
        self.nspawn = 0               # children (threads/processes) spawned so far
        self.woken = False
        self.block_gen = 0
        self.blocked_on = None
        self.held = False             # held by a directed trigger
        self.stall_until = None
        self.exc = None               # exception that escaped the thread
        self.done_q = WaitQ()
        self.prio = 0.0
        self.in_handler = False
        self.nsig = 0             # python-level signal handlers run on this thread so far
        self.pending_commit = None  # rest of a write chunk the kernel has accepted but whose arrival is still being spread
        self.tls = {}
        self.prev_code = None
        self.ndp = 0
        self.spin = 0
        self.no_async = False
        self.prev_line = 0

    def runnable(self):
        if self.state != RUNNABLE or self.held:
            return False
        p = self.proc
        if p.state != 'running':
            return False
        if self.stall_until is not None:
            if self.sim.now < self.stall_until:
                return False
            self.stall_until = None
        return True

    def __repr__(self):
        return f'<SimThread {self.name} {self.state}>'


class SimProc:
    def __init__(self, sim, pid, name, parent):
        self.sim = sim
        self.pid = pid
        self.name = name
        self.parent = parent
        self.state = 'running'   # running | stopped | gilheld | zombie | reaped
        self.exitcode = None
        self.exit_reason = None
        self.threads = []
        self.main = None
        self.fds = {}
        self.next_fd = 1000
        self.sig_handlers = {}
        self.pending_signals = []
        self.children = []        # SimProcess handles started by this process
        self.exit_q = WaitQ()
        self.registry = []        # Worker._active_children
        self.registry_lock = None
        self.main_module = None
        self.next_ident = 0
        self.free_idents = []         # identifiers of finished threads, reused last-in first-out
        self.tokens = {}
        self.stopped_pending = []
        self.nstop = 0                # times the process was stopped (SIGSTOP) so far
        self.started_at = sim.now
        self.exited_at = None
        self.run_done = False     # Process.run() has returned (the process may linger joining non-daemon threads)

    @property
    def alive(self):
        return self.state in ('running', 'stopped', 'gilheld')

    def __repr__(self):
        return f'<SimProc {self.name} pid={self.pid} {self.state}>'


class Policy:
    def __init__(self, kind='random', p_stay=0.5, depth=2, est_len=2000):
        self.kind = kind
        self.p_stay = p_stay
        self.depth = depth
        self.est_len = est_len
        self.change_points = None

    def describe(self):
        d = {'kind': self.kind}
        if self.kind == 'random':
            d['p_stay'] = self.p_stay
        if self.kind == 'pct':
            d['depth'] = self.depth
        return d


class Sim:
    def __init__(self, seed, knobs=None, policy=None, script=None, lenient=False):
        self.seed = seed
        self.rng = random.Random(seed)          # schedule decisions
        self.frng = random.Random(seed ^ 0x5eed)  # fault / kernel choices (segment sizes ...)
        self.knobs = dict(knobs or {})
        self.policy = policy or Policy()
        self.script = script                      # list of thread names (replay) or None
        self.script_pos = 0
        self.lenient = lenient
        self.script_diverged = False
        self.now = 0.0
        self.step_cost = self.knobs.get('step_cost', 1e-5)
        self.steps = 0
        self.max_steps = self.knobs.get('max_steps', 300000)
        self.max_time = self.knobs.get('max_time', 36000.0)
        self.threads = []
        self.procs = {}
        self.by_real = {}
        self.current = None
        self.timers = []
        self.tseq = 0
        self.log = []
        self.log_cap = self.knobs.get('log_cap', 200000)
        self.lhash = 0
        self.decisions = []            # names chosen at each decision point (for replay)
        self.record_decisions = True
        self.truth = []
        self.probes = {}
        self.fault_counts = {}
        self.landings = []
        self.triggers = []
        self.gates = {}
        self.done_lock = _thread.allocate_lock()
        self.done_lock.acquire()
        self.outcome = None            # 'finished' | 'hang' | 'step-cap' | 'time-cap' | 'error'
        self.outcome_info = None
        self.root = None
        self.died = []                 # (thread name, exc type, where)
        self.next_pid = 2000 + self.frng.randrange(0, 30000)
        self.next_port = 20000 + self.frng.randrange(0, 20000)
        self.next_tid = 100000 + self.frng.randrange(0, 50000)
        self.ident_base = 0x7f0000000000 + self.frng.randrange(0, 1 << 20) * 4096
        self.switches = 0
        self.nsys = 0
        self.line_hook = None
        self.spawning = None
        self.listeners = {}
        self.clock_mode = self.knobs.get('clock', 'responsive')
        self.stall_rate = self.knobs.get('stall_rate', 0.0)
        self.coarse = []               # coarse trace (for distinctness measure)
        self.conflict_reorder = 0
        self.finished = False
        self.last_progress = 0
        self.held_budget = 0
        self.ntok = 0
        self.preempts = 0
        self.proc_tag = None
        self.gc_tried = False
        self.in_gc = False
        self.tap = None
        self.spin_limit = self.knobs.get('spin_limit', 60000)
        self.fired = False
        self.dp_triggers = []
        self.dp_active = False
        self.dp_hook = None
        self.block_hooks = []
        self.n_instrumented = 0
        self.npipe = 0
        self.nconn = 0

    # ------------------------------------------------------------------ logging
    def ev(self, *rec):
        if len(self.log) < self.log_cap:
            self.log.append(rec)

    def probe(self, name, n=1):
        self.probes[name] = self.probes.get(name, 0) + n

    def fault(self, kind, n=1):
        self.fault_counts[kind] = self.fault_counts.get(kind, 0) + n

    def tlog(self, kind, **fields):
        t = self.me()
        fields['kind'] = kind
        fields['t'] = round(self.now, 6)
        fields['step'] = self.steps
        fields['thread'] = t.name if t else None
        fields['pid'] = t.proc.pid if t else None
        self.truth.append(fields)

    def digest(self):
        h = hashlib.sha1()
        h.update(repr(self.lhash).encode())
        h.update(repr(self.steps).encode())
        for rec in self.log:
            h.update(repr(rec).encode())
        return h.hexdigest()

    # ------------------------------------------------------------------ identity
    def me(self):
        return self.by_real.get(_thread.get_ident())

    def new_pid(self):
        self.next_pid += 1 + self.frng.randrange(0, 7)
        return self.next_pid

    # ------------------------------------------------------------------ processes & threads
    def new_proc(self, name, parent):
        p = SimProc(self, self.new_pid(), name, parent)
        p.tag = self.proc_tag
        self.procs[p.pid] = p
        return p

    def new_thread(self, proc, fn, name=None, daemon=False, role=None, creator=None):
        creator = creator if creator is not None else self.me()
        if name is None:
            if creator is None:
                name = 'm'
            else:
                name = f'{creator.name}.{creator.nspawn}'
                creator.nspawn += 1
        t = SimThread(self, proc, name, fn, daemon=daemon, role=role)
        if proc.free_idents:
            # like pthread_t under glibc (the stack of a finished thread is cached and handed to the next thread created), the
            # python thread identifier of a finished thread is recycled at once; native thread ids are not
            t.ident = proc.free_idents.pop()
            self.probe('thread-ident-recycled')
        else:
            proc.next_ident += 1
            t.ident = self.ident_base + proc.next_ident * 0x1000
        self.next_tid += 1
        t.native_id = self.next_tid
        proc.threads.append(t)
        self.threads.append(t)
        if proc.main is None:
            proc.main = t
        return t

    def start_thread(self, t):
        rt = _real_threading.Thread(target=self._boot, args=(t,), daemon=True)
        t.state = RUNNABLE
        rt.start()
        t.ready.acquire()      # wait until the host thread is registered and parked
        self.ev('start', t.name)

    def _boot(self, t):
        t.real_ident = _thread.get_ident()
        self.by_real[t.real_ident] = t
        t.ready.release()
        t.baton.acquire()        # park until first scheduled
        if t.proc.state in ('zombie', 'reaped') or t.state == FROZEN:
            return
        try:
            t.fn()
        except RunOver:
            return
        except BaseException as e:   # noqa
            t.exc = e
            where = _innermost_frame(e)
            self.died.append((t.name, type(e).__name__, where, t.role))
            self.ev('thread-died', t.name, type(e).__name__, where)
        self._thread_done(t)

    def _thread_done(self, t):
        if t.state == FROZEN:
            self._park_forever(t)
        t.state = DONE
        if t.ident is not None and t.proc.alive and t is not t.proc.main:
            t.proc.free_idents.append(t.ident)
        self.ev('done', t.name)
        self._wake_q(t.done_q)
        if t is self.root:
            self._finish('finished')
            return
        # hand over to somebody else; this real thread then exits
        nxt = self._pick(t)
        if nxt is None:
            return
        self.current = nxt
        nxt.baton.release()

    def _park_forever(self, t):
        nxt = self._pick(t)
        if nxt is not None:
            self.current = nxt
            nxt.baton.release()
        while True:
            t.baton.acquire()
            # somebody released us by mistake: hand the baton on
            nxt = self._pick(t)
            if nxt is not None:
                self.current = nxt
                nxt.baton.release()

    # ------------------------------------------------------------------ run
    def run(self, root_fn, wall_timeout=60.0):
        """Called from the host main thread. Returns outcome string."""
        import time as _t
        proc = self.new_proc('root', None)
        self.root_proc = proc
        self.root = self.new_thread(proc, root_fn, name='m', role='workload')
        install_monitoring(self)
        self.start_thread(self.root)
        self.current = self.root
        self.root.baton.release()
        deadline = _t.monotonic() + wall_timeout
        last = -1
        stuck_since = _t.monotonic()
        while True:
            if self.done_lock.acquire(timeout=0.5):
                break
            nowm = _t.monotonic()
            prog = self.steps + self.nsys + self.switches
            if prog != last:
                last = prog
                stuck_since = nowm
            if nowm - stuck_since > self.knobs.get('stuck_wall', 10.0) or nowm > deadline:
                self.outcome = 'harness-error'
                self.outcome_info = {'why': 'real-blocking-call or wall timeout',
                                     'stacks': self._all_stacks()}
                break
        uninstall_monitoring(self)
        return self.outcome

    def _finish(self, outcome, info=None):
        if self.finished:
            return
        self.finished = True
        self.outcome = outcome
        self.outcome_info = info
        self.done_lock.release()

    def _all_stacks(self):
        frames = sys._current_frames()
        out = {}
        for t in self.threads:
            if t.state in (DONE,):
                continue
            f = frames.get(t.real_ident)
            if f is None:
                continue
            out[t.name] = {'state': t.state, 'role': t.role, 'proc': t.proc.name,
                           'blocked_on': str(t.blocked_on),
                           'stack': _fmt_stack(f)}
        return out

    def blocked_report(self):
        """Stacks (pyworkers / workload frames only) of all live blocked threads."""
        frames = sys._current_frames()
        out = []
        for t in self.threads:
            if t.state != BLOCKED or not t.proc.alive:
                continue
            f = frames.get(t.real_ident)
            out.append({'thread': t.name, 'role': t.role, 'proc': t.proc.name,
                        'on': str(t.blocked_on), 'frames': _fmt_stack(f, short=True) if f else []})
        return out

    # ------------------------------------------------------------------ timers
    def add_timer(self, when, fn):
        self.tseq += 1
        heapq.heappush(self.timers, (when, self.tseq, fn))

    def _fire_due(self):
        tm = self.timers
        while tm and tm[0][0] <= self.now:
            _, _, fn = heapq.heappop(tm)
            fn()

    # ------------------------------------------------------------------ scheduling
    def _runnable(self):
        return [t for t in self.threads if t.state == RUNNABLE and t.runnable()]

    def _pick(self, cur):
        """Choose the next thread to run (cur may be non-runnable). Advances the clock when
        nobody is runnable. Returns None when the run is over."""
        if self.finished:
            return None
        while True:
            self._fire_due()
            R = self._runnable()
            if R:
                break
            # nobody runnable: release held threads first, then jump the clock
            held = [t for t in self.threads if t.held and t.state == RUNNABLE and t.proc.state == 'running']
            if held:
                for t in held:
                    t.held = False
                self.ev('unhold-quiescent', tuple(t.name for t in held))
                continue
            nxt_time = None
            if self.timers:
                nxt_time = self.timers[0][0]
            for t in self.threads:
                if t.stall_until is not None and t.state == RUNNABLE and t.proc.state == 'running':
                    if nxt_time is None or t.stall_until < nxt_time:
                        nxt_time = t.stall_until
            if nxt_time is None:
                if not self.gc_tried:
                    # before declaring a hang: cyclic garbage (e.g. a half-built worker object holding sockets) would be
                    # collected sooner or later in a real process; run the collector once and look again
                    import gc
                    self.gc_tried = True
                    n0 = self.nsys
                    # finalizers run here on behalf of whatever thread happens to be in the scheduler: they must neither
                    # switch threads (the collector is not re-entrant) nor receive asynchronous exceptions
                    self.in_gc = True
                    try:
                        gc.collect()
                    finally:
                        self.in_gc = False
                    self.probe('gc-at-quiescence')
                    if self._runnable():
                        self.probe('progress-only-after-gc')
                    continue
                self._finish('hang', {'blocked': self.blocked_report()})
                return None
            if nxt_time > self.max_time:
                self._finish('time-cap', {'blocked': self.blocked_report()})
                return None
            if nxt_time > self.now:
                self.now = nxt_time
        if self.steps > self.max_steps:
            self._finish('step-cap', {'steps': self.steps})
            return None
        if len(R) == 1:
            n = R[0]
        else:
            n = self._choose(R, cur)
        return n

    def _choose(self, R, cur):
        R.sort(key=_name_key)
        if self.script is not None:
            if self.script_pos < len(self.script):
                want = self.script[self.script_pos]
                self.script_pos += 1
                for t in R:
                    if t.name == want:
                        self._rec(t)
                        return t
                self.script_diverged = True
                if not self.lenient:
                    self.ev('script-diverged', want)
            # fall back: cooperative
            n = cur if (cur in R) else R[0]
            self._rec(n)
            return n
        pol = self.policy
        k = pol.kind
        if k == 'random':
            if cur in R and self.rng.random() < pol.p_stay:
                n = cur
            else:
                n = R[self.rng.randrange(len(R))]
        elif k == 'cooperative':
            n = cur if (cur in R) else R[0]
        elif k == 'directed':
            if not self.fired:
                n = cur if (cur in R) else R[0]
            elif cur in R and self.rng.random() < pol.p_stay:
                n = cur
            else:
                n = R[self.rng.randrange(len(R))]
        elif k == 'pct':
            if pol.change_points is None:
                pol.change_points = sorted(self.rng.randrange(1, pol.est_len) for _ in range(pol.depth))
            for t in R:
                if t.prio == 0.0:
                    t.prio = 1.0 + self.rng.random()
            while pol.change_points and self.switches + self.nsys >= pol.change_points[0]:
                pol.change_points.pop(0)
                if cur is not None:
                    cur.prio = self.rng.random() * 0.5
            n = max(R, key=lambda t: t.prio)
        else:
            raise ValueError(k)
        self._rec(n)
        return n

    def _rec(self, n):
        if self.record_decisions:
            self.decisions.append(n.name)

    def switch(self, t):
        """Give up the baton from thread t (which is the caller). Returns when t is scheduled again."""
        if self.in_gc:
            return
        n = self._pick(t)
        if n is None:
            # run is over; park this thread forever
            while True:
                t.baton.acquire()
        if n is t:
            return
        self.switches += 1
        self.current = n
        n.baton.release()
        t.baton.acquire()
        # back on t
        if t.state == FROZEN or not t.proc.alive:
            self._park_forever(t)

    def yield_(self, reason=None, deliver=True):
        """Pre-emption point at a simulated system call."""
        t = self.me()
        if t is None:
            return
        t.spin = 0
        self.nsys += 1
        self.now += self.step_cost
        if self.steps + self.nsys > self.max_steps:
            self._finish('step-cap', {'steps': self.steps})
        self._maybe_stall(t)
        self.switch(t)
        self._after_resume(t, deliver)

    def _maybe_stall(self, t):
        if self.stall_rate and self.clock_mode == 'adversarial' and t is not self.root:
            if self.frng.random() < self.stall_rate:
                d = self.frng.choice((0.01, 0.2, 1.5, 7.0))
                t.stall_until = self.now + d
                self.fault('stall')
                self.ev('stall', t.name, d)

    def block(self, t, qs, timeout=None, what=None, deliver=True):
        """Block thread t on wait queues qs until woken or timeout (simulated seconds).
        Returns True if woken, False on timeout."""
        self.nsys += 1
        t.spin = 0
        self.now += self.step_cost
        t.state = BLOCKED
        t.woken = False
        t.block_gen += 1
        t.blocked_on = what
        gen = t.block_gen
        if self.block_hooks:
            for h in list(self.block_hooks):
                h(self, t, what)
            if t.state != BLOCKED:      # the hook killed / froze us
                self.switch(t)
        for q in qs:
            q.add(t)
        if timeout is not None:
            def fire(t=t, gen=gen):
                if t.state == BLOCKED and t.block_gen == gen:
                    t.state = RUNNABLE
                    t.woken = False
            self.add_timer(self.now + max(0.0, timeout), fire)
        self.switch(t)
        for q in qs:
            q.discard(t)
        t.blocked_on = None
        w = t.woken
        self._after_resume(t, deliver)
        return w

    def wake(self, t):
        if t.state == BLOCKED:
            t.state = RUNNABLE
            t.woken = True

    def _wake_q(self, q):
        for t in list(q.threads):
            self.wake(t)

    wake_q = _wake_q

    def sleep(self, d):
        t = self.me()
        if t is None:
            return
        if d <= 0:
            self.yield_('sleep0')
            return
        self.block(t, (), timeout=d, what=f'sleep({d})')

    def _after_resume(self, t, deliver):
        # python-level signal handlers run in the main thread of a process
        p = t.proc
        if p.pending_signals and t is p.main and not t.in_handler:
            self._run_handlers(t)
        if deliver and (t.pending_exc is not None or self.dp_active):
            self.sys_return(t)

    def _run_handlers(self, t):
        p = t.proc
        t.in_handler = True
        try:
            while p.pending_signals:
                signum = p.pending_signals.pop(0)
                h = p.sig_handlers.get(signum)
                self.ev('sighandler', t.name, int(signum))
                t.nsig += 1
                if callable(h):
                    h(signum, None)
        finally:
            t.in_handler = False

    # ------------------------------------------------------------------ LINE events
    def on_line(self, code, line):
        t = self.by_real.get(_thread.get_ident())
        if t is None or self.finished:
            return
        self.steps += 1
        self.now += self.step_cost
        t.nline += 1
        t.spin += 1
        if t.spin > self.spin_limit:
            self._finish('spin', {'thread': t.name, 'role': t.role, 'stack': _fmt_stack(sys._getframe(2), short=True)})
        pc, pl = t.prev_code, t.prev_line
        t.prev_code, t.prev_line = code, line
        self.lhash = (self.lhash * 1000003 + code.co_firstlineno * 4099 + line + len(t.name)) & 0xFFFFFFFFFFFF
        if self.line_hook is not None:
            self.line_hook(t, code, line)
        if self.triggers:
            self._check_triggers(self.triggers, t, code, line, 'line', t.nline)
        # pre-emption decision
        if self.timers and self.timers[0][0] <= self.now:
            self._fire_due()
        if self.steps > self.max_steps:
            self._finish('step-cap', {'steps': self.steps})
        if self.held_budget:
            self.held_budget -= 1
            if self.held_budget == 0:
                for x in self.threads:
                    if x.held:
                        x.held = False
                        self.ev('unhold-budget', x.name)
        if not t.runnable() or self._want_preempt(t):
            sw = self.switches
            self.switch(t)
            if self.switches != sw:
                self.preempts += 1
        p = t.proc
        if p.pending_signals and t is p.main and not t.in_handler:
            self._run_handlers(t)
        if pc is code and line <= pl:
            # reached by a backward jump: CPython checks the eval breaker on JUMP_BACKWARD
            self._delivery_point(t, 'jump', code, line)

    # ------------------------------------------------------------------ asynchronous-exception delivery points
    # CPython 3.12 raises a pending asynchronous exception only where it checks the eval breaker: on function
    # entry (RESUME), on backward jumps and right after a call to a C function returns - in particular after a
    # blocking call returns.  These are modelled by: PY_START events, LINE events reached by a backward jump,
    # CALL events whose callee is a Python function (equivalent to the callee's RESUME check), C_RETURN / C_RAISE
    # events, and the return of every simulated system call.
    def on_py_start(self, code, offset):
        t = self.by_real.get(_thread.get_ident())
        if t is None or self.finished:
            return
        if t.pending_exc is not None or self.dp_active:
            self._delivery_point(t, 'start', code, code.co_firstlineno)

    def on_call(self, code, offset, callee, arg0):
        t = self.by_real.get(_thread.get_ident())
        if t is None or self.finished:
            return
        if t.pending_exc is not None or self.dp_active:
            tp = type(callee)
            if tp is types.MethodType:
                callee = callee.__func__
                tp = type(callee)
            if tp is types.FunctionType and not getattr(callee, '_sim_c', False):
                # (a simulated primitive marked _sim_c stands for a C function: the check happens when it returns)
                self._delivery_point(t, 'call', code, _line_of(code, offset))

    def on_c_return(self, code, offset, callee, arg0):
        t = self.by_real.get(_thread.get_ident())
        if t is None or self.finished:
            return
        if t.pending_exc is not None or self.dp_active:
            self._delivery_point(t, 'cret', code, _line_of(code, offset))

    def sys_return(self, t):
        """delivery point at the return of a simulated system call (called from shims, outside callbacks)"""
        if t.pending_exc is not None or self.dp_active:
            code, line = _innermost_instrumented(sys._getframe(1))
            self._delivery_point(t, 'sys', code, line)

    def c_return_point(self, t):
        """eval-breaker check after a simulated C function (e.g. lock.acquire) has returned to instrumented code"""
        if t.pending_exc is not None or self.dp_active:
            f = sys._getframe(2)        # the caller of the simulated C function
            if f.f_code in _INSTRUMENTED_SET:
                self._delivery_point(t, 'cret', f.f_code, f.f_lineno)

    def sys_return_point(self, t):
        if t.pending_exc is not None or self.dp_active:
            self.sys_return(t)

    def _delivery_point(self, t, kind, code, line):
        if t.no_async or t.in_handler or self.in_gc:
            return
        t.ndp += 1
        if self.dp_hook is not None:
            self.dp_hook(t, kind, code, line)
        if self.dp_triggers:
            self._check_triggers(self.dp_triggers, t, code, line, kind, t.ndp)
            if not t.runnable():
                self.switch(t)
        if t.pending_exc is not None:
            exc = t.pending_exc
            t.pending_exc = None
            qn = code.co_qualname if code is not None else None
            stack = []
            f = sys._getframe(2)
            while f is not None and len(stack) < 40:
                co = f.f_code
                if co in _INSTRUMENTED_SET:
                    stack.append((co.co_qualname, f.f_lineno))
                f = f.f_back
            self.landings.append({'thread': t.name, 'role': t.role, 'exc': getattr(exc, '__name__', type(exc).__name__),
                                  'at': (qn, line), 'dp': kind, 'ndp': t.ndp, 'stack': stack, 'evalbreak': True,
                                  'step': self.steps, 'nseq': len(self.truth)})
            self.ev('async-raise', t.name, qn, line, kind)
            raise exc

    def _want_preempt(self, t):
        # (replay: the script only replaces the outcome of _choose; whether a line is a decision point at all follows the
        # case's policy exactly as in the recorded run, otherwise script positions and decision points drift apart)
        k = self.policy.kind
        if k == 'cooperative' or (k == 'directed' and not self.fired):
            return False
        if k == 'random':
            # the decision whether to stay is taken in _choose; but avoid the cost when alone
            return True
        return True

    # ------------------------------------------------------------------ directed triggers
    def add_trigger(self, thread=None, nline=None, qualname=None, line=None, occurrence=1, action=None,
                    role=None, label=None, at='line', ndp=None, dpkind=None, pred=None):
        tr = {'thread': thread, 'index': nline if at == 'line' else ndp, 'qualname': qualname, 'line': line,
              'occ': occurrence, 'seen': 0, 'action': action, 'role': role, 'label': label, 'dpkind': dpkind, 'pred': pred}
        if at == 'line':
            self.triggers.append(tr)
        else:
            self.dp_triggers.append(tr)
            self.dp_active = True

    def _check_triggers(self, lst, t, code, line, kind=None, index=None):
        for tr in list(lst):
            if tr['thread'] is not None and tr['thread'] != t.name:
                continue
            if tr['role'] is not None and tr['role'] != t.role:
                continue
            if tr['pred'] is not None and not tr['pred'](t):
                continue
            if tr['index'] is not None:
                if index != tr['index']:
                    continue
            else:
                if tr['qualname'] is not None and (code is None or code.co_qualname != tr['qualname']):
                    continue
                if tr['line'] is not None and line != tr['line']:
                    continue
                if tr['dpkind'] is not None and kind != tr['dpkind']:
                    continue
                tr['seen'] += 1
                if tr['seen'] != tr['occ']:
                    continue
            lst.remove(tr)
            self.fired = True
            self.ev('trigger', t.name, code.co_qualname if code is not None else None, line, tr['label'], kind)
            tr['action'](self, t, code, line)

    def hold(self, t, budget=3000):
        t.held = True
        self.held_budget = budget

    def gate(self, name):
        g = self.gates.get(name)
        if g is None:
            g = self.gates[name] = {'open': False, 'q': WaitQ()}
        return g

    def gate_wait(self, name, timeout=None):
        g = self.gate(name)
        t = self.me()
        while not g['open']:
            if not self.block(t, (g['q'],), timeout=timeout, what=f'gate:{name}'):
                return g['open']
        return True

    def gate_open(self, name):
        g = self.gate(name)
        g['open'] = True
        self._wake_q(g['q'])

    # ------------------------------------------------------------------ async exceptions
    def set_async_exc(self, proc, ident, exc):
        """PyThreadState_SetAsyncExc emulation. Returns number of thread states modified."""
        for t in proc.threads:
            if t.ident == ident and t.state in (RUNNABLE, BLOCKED):
                t.pending_exc = exc
                if exc is not None:
                    self.ev('async-set', t.name, getattr(exc, '__name__', str(exc)))
                    if t.held:
                        t.held = False
                return 1
        return 0

    # ------------------------------------------------------------------ process life cycle
    def kill_proc(self, p, sig, reason=None):
        """Abrupt death: no finally blocks, fds closed by the kernel."""
        if not p.alive:
            return
        self.ev('kill', p.name, int(sig))
        self._terminate_proc(p, -int(sig), reason or f'signal {int(sig)}')

    def exit_proc(self, p, code):
        if not p.alive:
            return
        self.ev('exit', p.name, code)
        self._terminate_proc(p, code, 'exit')

    def _terminate_proc(self, p, code, reason):
        from . import kernel
        p.state = 'zombie'
        p.exitcode = code
        p.exit_reason = reason
        p.exited_at = self.now
        for t in p.threads:
            if t.state in (RUNNABLE, BLOCKED, NEW):
                t.state = FROZEN
            pc = t.pending_commit
            if pc is not None:
                t.pending_commit = None
                if pc[2] < pc[3]:
                    kernel._put(self, pc[0], pc[1][pc[2]:pc[3]])
                    self.ev('write-committed-before-death', t.name, pc[4], pc[3] - pc[2])
            half = getattr(t, 'spawning', None)
            if half is not None:
                # the process died while one of its threads was handing a child its start-up data (spawn): the real child's
                # bootstrap reads end-of-file from the dead parent and exits, closing the descriptors it had inherited
                t.spawning = None
                if half.state == 'running' and half.main is None:
                    kernel.close_all_fds(self, half)
                    half.state = 'reaped'
                    half.exitcode = 1
                    self.ev('half-spawned-child-gone', half.name)
        kernel.close_all_fds(self, p)
        self._wake_q(p.exit_q)
        # orphaned children keep running (re-parented to init), as on a real OS

    def stop_proc(self, p):
        if p.state == 'running':
            p.state = 'stopped'
            p.nstop += 1
            self.ev('sigstop', p.name)

    def cont_proc(self, p):
        if p.state == 'stopped':
            p.state = 'running'
            self.ev('sigcont', p.name)
            pend, p.stopped_pending = p.stopped_pending, []
            from .shims import sim_kill
            for sig in pend:
                if p.alive:
                    sim_kill(p.pid, sig)


def _name_key(t):
    return t.name


def _innermost_frame(e):
    tb = e.__traceback__
    last = None
    while tb is not None:
        co = tb.tb_frame.f_code
        if 'pyworkers' in co.co_filename or 'workloads' in co.co_filename:
            last = co.co_qualname
        tb = tb.tb_next
    return last


def _fmt_stack(f, short=False):
    out = []
    while f is not None:
        co = f.f_code
        fn = co.co_filename
        if (not short) or 'pyworkers' in fn or 'workloads' in fn or 'props' in fn:
            out.append(f'{co.co_qualname}:{f.f_lineno}')
        f = f.f_back
    return out[:30]


_CALL_CACHE = {}


def _evalbreak_reachable(code, line, prev_code, prev_line):
    """Could CPython 3.12 really deliver an asynchronous exception just before this line?  It checks the eval
    breaker on function entry (RESUME), on backward jumps and after calls.  So: yes when the previous line event
    of this thread was in another code object (we just entered this frame, or a callee just ran), when we
    arrived by a backward jump, or when the previously executed line of this frame contains a call."""
    import dis
    if prev_code is not code:
        return True
    if line <= prev_line:
        return True
    info = _CALL_CACHE.get(code)
    if info is None:
        info = set()
        for ins in dis.get_instructions(code):
            ln = ins.positions.lineno if ins.positions else None
            if ins.opname.startswith('CALL') or ins.opname in ('SEND', 'YIELD_VALUE', 'FOR_ITER'):
                info.add(ln)
        _CALL_CACHE[code] = info
    return prev_line in info


# ---------------------------------------------------------------------- monitoring
_INSTRUMENTED = []
_ACTIVE = {'sim': None}


def collect_code_objects(prefixes, exclude_qualnames=()):
    import gc
    seen = set()
    out = []

    def add(co):
        if co in seen:
            return
        seen.add(co)
        if any(co.co_qualname.startswith(x) for x in exclude_qualnames):
            return
        out.append(co)
        for c in co.co_consts:
            if isinstance(c, types.CodeType):
                add(c)

    for o in gc.get_objects():
        if isinstance(o, types.FunctionType):
            co = o.__code__
            fn = co.co_filename
            if any(fn.startswith(p) for p in prefixes):
                add(co)
    out.sort(key=lambda c: (c.co_filename, c.co_firstlineno, c.co_qualname))
    return out


def _line_cb(code, line):
    sim = _ACTIVE['sim']
    if sim is not None:
        sim.on_line(code, line)


def _start_cb(code, offset):
    sim = _ACTIVE['sim']
    if sim is not None:
        sim.on_py_start(code, offset)


def _call_cb(code, offset, callee, arg0):
    sim = _ACTIVE['sim']
    if sim is not None:
        sim.on_call(code, offset, callee, arg0)


def _cret_cb(code, offset, callee, arg0):
    sim = _ACTIVE['sim']
    if sim is not None:
        sim.on_c_return(code, offset, callee, arg0)


_INSTRUMENTED_SET = set()
_LINE_TABLES = {}


def _line_of(code, offset):
    tab = _LINE_TABLES.get(code)
    if tab is None:
        tab = {}
        for start, end, ln in code.co_lines():
            if ln is not None:
                for o in range(start, end, 2):
                    tab[o] = ln
        _LINE_TABLES[code] = tab
    return tab.get(offset, code.co_firstlineno)


def _innermost_instrumented(f):
    while f is not None:
        if f.f_code in _INSTRUMENTED_SET:
            return f.f_code, f.f_lineno
        f = f.f_back
    return None, None


def instrument(code_objects):
    mon = sys.monitoring
    if mon.get_tool(TOOL_ID) is None:
        mon.use_tool_id(TOOL_ID, 'simos')
    ev = mon.events
    mon.register_callback(TOOL_ID, ev.LINE, _line_cb)
    mon.register_callback(TOOL_ID, ev.PY_START, _start_cb)
    mon.register_callback(TOOL_ID, ev.CALL, _call_cb)
    mon.register_callback(TOOL_ID, ev.C_RETURN, _cret_cb)
    mon.register_callback(TOOL_ID, ev.C_RAISE, _cret_cb)
    for co in code_objects:
        mon.set_local_events(TOOL_ID, co, ev.LINE | ev.PY_START | ev.CALL)
        _INSTRUMENTED.append(co)
        _INSTRUMENTED_SET.add(co)


def install_monitoring(sim):
    _ACTIVE['sim'] = sim


def uninstall_monitoring(sim):
    _ACTIVE['sim'] = None
