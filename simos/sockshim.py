"""`socket` module replacement (AF_INET / SOCK_STREAM only) on simulated TCP."""
import errno
import struct
import socket as _real
from multiprocessing.reduction import register as _register

from . import kernel
from .sync import cur_sim


class SimSocket:
    def __init__(self, family=_real.AF_INET, type=_real.SOCK_STREAM, proto=0, fileno=None, _ofd=None, _proc=None):
        sim = cur_sim()
        me = sim.me()
        self._owner = _proc if _proc is not None else me.proc
        self.family = family
        self.type = type
        self.proto = proto
        if fileno is not None:
            self._fd = fileno
        else:
            ofd = _ofd if _ofd is not None else kernel.Sock('tcp')
            self._fd = kernel.install(self._owner, ofd)
        self._closed = False
        self._timeout = None

    # -- helpers
    def _ofd(self):
        if self._closed:
            raise OSError(errno.EBADF, 'Bad file descriptor')
        return kernel.lookup(self._owner, self._fd)

    def fileno(self):
        return -1 if self._closed else self._fd

    def __enter__(self):
        return self

    def __exit__(self, *a):
        if not self._closed:
            self.close()

    def __repr__(self):
        return f'<SimSocket fd={self._fd} closed={self._closed}>'

    # -- options
    def setsockopt(self, level, opt, value, *a):
        ofd = self._ofd()
        if level == _real.SOL_SOCKET and opt == _real.SO_LINGER:
            onoff, secs = struct.unpack('ii', value)
            ofd.linger = (onoff, secs)

    def getsockopt(self, level, opt, *a):
        return 0

    def settimeout(self, t):
        self._timeout = t

    def gettimeout(self):
        return self._timeout

    def setblocking(self, flag):
        self._timeout = None if flag else 0.0

    # -- addressing
    def bind(self, addr):
        kernel.tcp_bind(cur_sim(), self._ofd(), tuple(addr))

    def listen(self, backlog=128):
        kernel.tcp_listen(cur_sim(), self._ofd())

    def getsockname(self):
        ofd = self._ofd()
        return ofd.laddr if ofd.laddr is not None else ('0.0.0.0', 0)

    def getpeername(self):
        ofd = self._ofd()
        if ofd.state != 'connected' or ofd.raddr is None or ofd.dead:
            # Linux: after a reset the socket is in TCP_CLOSE and getpeername() fails (checked by conformance/)
            raise OSError(errno.ENOTCONN, 'Transport endpoint is not connected')
        return ofd.raddr

    # -- connection
    def connect(self, addr):
        kernel.tcp_connect(cur_sim(), self._ofd(), tuple(addr))

    def accept(self):
        sim = cur_sim()
        srv = kernel.tcp_accept(sim, self._ofd(), timeout=self._timeout)
        s = SimSocket(_ofd=srv)
        return s, srv.raddr

    # -- data
    def sendall(self, data, flags=0):
        kernel.k_write(cur_sim(), self._ofd(), data, what='send')

    def send(self, data, flags=0):
        return kernel.k_write(cur_sim(), self._ofd(), data, what='send', partial=True)

    def recv(self, n, flags=0):
        if flags & _real.MSG_WAITALL and self._timeout is None:
            return kernel.k_read_waitall(cur_sim(), self._ofd(), n, what='recv')
        return kernel.k_read(cur_sim(), self._ofd(), n, timeout=self._timeout, what='recv')

    def shutdown(self, how):
        kernel.k_shutdown(cur_sim(), self._ofd(), how)

    def close(self):
        if self._closed:
            return
        self._closed = True
        sim = cur_sim()
        if sim is None or sim.finished or not self._owner.alive:
            return
        try:
            kernel.close_fd(sim, self._owner, self._fd)
        except OSError:
            pass

    def dup(self):
        ofd = self._ofd()
        return SimSocket(self.family, self.type, self.proto, _ofd=ofd)

    def detach(self):
        self._closed = True
        return self._fd

    def __del__(self):
        try:
            if not self._closed:
                self.close()
        except Exception:
            pass


def _reduce_socket(s):
    from .mpshim import _export
    sim = cur_sim()
    ofd = kernel.lookup(s._owner, s._fd)
    return _rebuild_socket, (_export(sim, ofd), s.family, s.type, s.proto)


def _rebuild_socket(tok, family, type_, proto):
    from .mpshim import _import
    sim = cur_sim()
    fd = _import(sim, tok)
    return SimSocket(family, type_, proto, fileno=fd)


_register(SimSocket, _reduce_socket)


def gethostbyname(host):
    if host in ('localhost', ''):
        return '127.0.0.1'
    return host


class SocketFacade:
    socket = SimSocket
    gethostbyname = staticmethod(gethostbyname)
    error = OSError
    timeout = TimeoutError

    def __getattr__(self, name):
        # constants (AF_INET, SOL_SOCKET, SHUT_RD, ...)
        v = getattr(_real, name)
        if callable(v) and not isinstance(v, int):
            raise AttributeError(f'socket.{name} is not simulated')
        return v
