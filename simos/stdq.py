"""The *real* Python code of the standard library's `queue.Queue` and `threading.Condition`, executed under the simulator.

pyworkers' thread workers receive their inputs and deliver their results through `queue.Queue` objects, and an asynchronous
exception raised by `terminate()` can land inside that pure-Python stdlib code (for instance in `Condition.__enter__`, right after
the C-level lock has been taken).  A hand-written queue stand-in would hide such landings, so the source of both classes is
re-compiled here over simulated primitives:

  * `_allocate_lock` / `threading.Lock`  ->  `CLock`, a simulated lock with the semantics of a C function: no asynchronous
    exception is raised before or while it runs, the eval-breaker check happens when it *returns* (with the lock held);
  * `time.monotonic`                      ->  the simulated clock.

The code objects are handed to the monitoring layer, so every line is a pre-emption point and every delivery point is a landing
place, exactly as for the pyworkers modules themselves."""
import inspect
import opcode
import sys
import itertools
import queue as _queue
import threading as _threading
import types
from collections import deque

from .core import WaitQ
from . import sync


_BEFORE_WITH = opcode.opmap['BEFORE_WITH']
_CALL_OPS = {opcode.opmap[n] for n in ('CALL', 'CALL_FUNCTION_EX') if n in opcode.opmap}


def _c_like(fn):
    fn._sim_c = True
    return fn


class CLock:
    """simulated `_thread.lock` with C-function delivery semantics"""

    def __init__(self):
        self._owner = None
        self._q = WaitQ()

    def _acq(self, blocking, timeout):
        sim = sync.cur_sim()
        t = sim.me() if sim else None
        if t is None:
            self._owner = 'host'
            return True, None, None
        ok = True
        deadline = None if (timeout is None or timeout < 0) else sim.now + timeout
        while self._owner is not None:
            if not blocking:
                ok = False
                break
            rem = None if deadline is None else deadline - sim.now
            if rem is not None and rem <= 0:
                ok = False
                break
            sim.probe('lock-contended')
            # a thread waiting for a C-level lock is not woken by a pending asynchronous exception
            sim.block(t, (self._q,), timeout=rem, what='lock', deliver=False)
        if ok:
            self._owner = t
        return ok, sim, t

    def _rel(self):
        if self._owner is None:
            raise RuntimeError('release unlocked lock')
        self._owner = None
        sim = sync.cur_sim()
        if sim:
            sim.wake_q(self._q)
        return sim

    @_c_like
    def acquire(self, blocking=True, timeout=-1):
        ok, sim, t = self._acq(blocking, timeout)
        if t is not None:
            sim.c_return_point(t)      # eval-breaker check after the C call returned: the lock is held if ok
        return ok

    @_c_like
    def release(self):
        sim = self._rel()
        t = sim.me() if sim else None
        if t is not None:
            sim.c_return_point(t)

    @_c_like
    def locked(self):
        return self._owner is not None

    @_c_like
    def __enter__(self):
        ok, sim, t = self._acq(True, -1)
        if t is not None:
            f = sys._getframe(1)
            # `with lock:` (BEFORE_WITH) performs no eval-breaker check between __enter__ and the protected block;
            # an explicit call `lock.__enter__()` (as in Condition.__enter__) is an ordinary CALL and does
            if f.f_code.co_code[f.f_lasti] != _BEFORE_WITH:
                sim.c_return_point(t)
        return ok

    @_c_like
    def __exit__(self, *a):
        sim = self._rel()
        t = sim.me() if sim else None
        if t is not None:
            f = sys._getframe(1)
            if f.f_code.co_code[f.f_lasti] in _CALL_OPS:
                sim.c_return_point(t)

    def _at_fork_reinit(self):
        self._owner = None

    def __reduce__(self):
        raise TypeError("cannot pickle '_thread.lock' object")


def _sim_monotonic():
    return sync.cur_sim().now


_BUILT = {}


def build():
    """-> (Queue class, Condition class, list of code objects to instrument); built once per OS process"""
    if _BUILT:
        return _BUILT['Queue'], _BUILT['Condition'], _BUILT['codes']
    ns_t = {'__name__': 'simos.stdlib_threading', '_allocate_lock': CLock, 'Lock': CLock, 'RLock': sync.RLock,
            '_time': _sim_monotonic, '_deque': deque, '_islice': itertools.islice}
    exec(compile(inspect.getsource(_threading.Condition), _threading.__file__, 'exec'), ns_t)
    Condition = ns_t['Condition']
    ns_q = {'__name__': 'simos.stdlib_queue'}
    exec(compile(inspect.getsource(_queue), _queue.__file__, 'exec'), ns_q)
    ns_q['threading'] = types.SimpleNamespace(Lock=CLock, Condition=Condition)
    ns_q['time'] = _sim_monotonic
    Queue = ns_q['Queue']
    ns_q['Empty'] = _queue.Empty      # the very classes pyworkers catches
    ns_q['Full'] = _queue.Full
    codes = []

    def add(co):
        codes.append(co)
        for c in co.co_consts:
            if isinstance(c, types.CodeType):
                add(c)
    for cls in (Condition, Queue):
        for name, v in sorted(vars(cls).items()):
            f = v.__func__ if isinstance(v, (classmethod, staticmethod)) else v
            if isinstance(f, types.FunctionType):
                add(f.__code__)
    _BUILT.update(Queue=Queue, Condition=Condition, codes=codes)
    return Queue, Condition, codes


def build_event():
    """-> (Event class built from the stdlib source over Condition(CLock), code objects to instrument)"""
    if 'Event' in _BUILT:
        return _BUILT['Event'], _BUILT['event_codes']
    _q, Condition, _c = build()
    ns = {'__name__': 'simos.stdlib_threading_event', 'Condition': Condition, 'Lock': CLock}
    exec(compile(inspect.getsource(_threading.Event), _threading.__file__, 'exec'), ns)
    Event = ns['Event']
    Event.__reduce__ = lambda self: (_ for _ in ()).throw(TypeError("cannot pickle '_thread.lock' object"))
    codes = []

    def add(co):
        codes.append(co)
        for c in co.co_consts:
            if isinstance(c, types.CodeType):
                add(c)
    for name, v in sorted(vars(Event).items()):
        if isinstance(v, types.FunctionType) and name != '__reduce__':
            add(v.__code__)
    # Condition's code objects are instrumented too (they may not be when the tree under test uses SimpleQueue)
    for name, v in sorted(vars(Condition).items()):
        if isinstance(v, types.FunctionType):
            add(v.__code__)
    _BUILT.update(Event=Event, event_codes=codes)
    return Event, codes
