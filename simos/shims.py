"""Facades for os / time / signal / ctypes / platform / sys / runpy, and installation into pyworkers."""
import os as _os
import sys as _sys
import time as _time
import signal as _signal
import ctypes as _ctypes
import types
import logging

from . import core, kernel
from .sync import cur_sim, _SIM, ThreadingFacade, SimQueue, Lock
from .mpshim import MPFacade
from .sockshim import SocketFacade


# ---------------------------------------------------------------------------- os / signal
def sim_kill(pid, sig):
    sim = cur_sim()
    me = sim.me()
    sig = int(sig)
    p = sim.procs.get(pid)
    if p is None or p.state == 'reaped':
        raise ProcessLookupError(3, 'No such process')
    sim.ev('os.kill', me.name if me else None, p.name, sig)
    if me is not None and sig != 0:
        p.last_signal_from = {'thread': me.name, 'role': me.role, 'proc': me.proc.name, 'tag': getattr(me.proc, 'tag', None),
                              'same_proc': me.proc is p, 'sig': sig}
    if p.state == 'zombie':
        return
    if sig == 0:
        return
    if sig == int(_signal.SIGKILL):
        sim.kill_proc(p, sig)
    elif sig == int(_signal.SIGSTOP):
        sim.stop_proc(p)
    elif sig == int(_signal.SIGCONT):
        sim.cont_proc(p)
    else:
        h = p.sig_handlers.get(sig, _signal.SIG_DFL)
        if h == _signal.SIG_IGN:
            return
        if p.state == 'stopped':
            # a stopped process acts on nothing but SIGKILL / SIGCONT; the signal stays pending
            p.stopped_pending.append(sig)
            sim.ev('signal-pending-while-stopped', p.name, sig)
            return
        if callable(h) and p.state != 'gilheld':
            p.pending_signals.append(sig)
            # wake the main thread if it sits in an interruptible call
            mt = p.main
            if mt is not None and mt.held:
                mt.held = False        # a directed trigger was holding it at a chosen point until this signal arrived
            if mt is not None and mt.state == core.BLOCKED:
                sim.wake(mt)
        elif callable(h):
            p.pending_signals.append(sig)   # never runs: the interpreter lock is held by C code
        else:
            if sig in (int(_signal.SIGCHLD), int(_signal.SIGURG), int(_signal.SIGWINCH)):
                return
            sim.kill_proc(p, sig)
    if me is not None and not me.proc.alive:
        sim._park_forever(me)
    if me is not None and me.proc is p and me is p.main and p.pending_signals and not me.in_handler:
        sim._run_handlers(me)


class OsFacade:
    path = _os.path
    environ = _os.environ
    sep = _os.sep
    name = _os.name
    fspath = staticmethod(_os.fspath)
    getcwd = staticmethod(_os.getcwd)

    @staticmethod
    def getpid():
        sim = cur_sim()
        me = sim.me() if sim else None
        if me is None:
            return _os.getpid()
        return me.proc.pid

    @staticmethod
    def getppid():
        sim = cur_sim()
        me = sim.me()
        return me.proc.parent.pid if me.proc.parent else 1

    kill = staticmethod(sim_kill)

    def __getattr__(self, name):
        raise AttributeError(f'os.{name} is not simulated')


class SignalFacade:
    def __getattr__(self, name):
        return getattr(_signal, name)

    @staticmethod
    def signal(signum, handler):
        sim = cur_sim()
        me = sim.me()
        p = me.proc
        old = p.sig_handlers.get(int(signum), _signal.SIG_DFL)
        p.sig_handlers[int(signum)] = handler
        sim.ev('signal.signal', me.name, int(signum), 'dfl' if handler == _signal.SIG_DFL else 'handler')
        return old

    @staticmethod
    def getsignal(signum):
        sim = cur_sim()
        return sim.me().proc.sig_handlers.get(int(signum), _signal.SIG_DFL)


# ---------------------------------------------------------------------------- time
class TimeFacade:
    @staticmethod
    def sleep(d):
        cur_sim().sleep(d)

    @staticmethod
    def time():
        return 1.7e9 + cur_sim().now

    @staticmethod
    def monotonic():
        return cur_sim().now

    perf_counter = monotonic

    def __getattr__(self, name):
        return getattr(_time, name)


# ---------------------------------------------------------------------------- ctypes (foreign_raise)
class _PyObject:
    def __init__(self, *a):
        self.null = not a
        self.value = a[0] if a else None


class _CInt:
    def __init__(self, v=0):
        self.value = v


class _PythonApi:
    @staticmethod
    def PyThreadState_SetAsyncExc(tid, obj):
        sim = cur_sim()
        me = sim.me()
        ident = tid.value if isinstance(tid, _CInt) else int(tid)
        exc = None if (isinstance(obj, _PyObject) and obj.null) else (obj.value if isinstance(obj, _PyObject) else obj)
        return sim.set_async_exc(me.proc, ident, exc)


class CtypesFacade:
    c_ulong = _CInt
    c_long = _CInt
    py_object = _PyObject
    pythonapi = _PythonApi


# ---------------------------------------------------------------------------- platform / sys / runpy
class PlatformFacade:
    @staticmethod
    def node():
        return 'simhost'

    def __getattr__(self, name):
        import platform
        return getattr(platform, name)


class _ModulesOverlay(dict):
    pass


class SysFacade:
    """per-process view of sys.modules['__main__'] for pyworkers.remote"""

    def __getattr__(self, name):
        return getattr(_sys, name)

    @property
    def modules(self):
        sim = cur_sim()
        me = sim.me() if sim else None
        if me is None:
            return _sys.modules
        p = me.proc
        if p.main_module is None:
            p.main_module = types.ModuleType('__main__')   # no __file__, like an interactive parent
        ov = _ModulesOverlay(_sys.modules)
        ov['__main__'] = p.main_module
        return ov


class RunpyFacade:
    @staticmethod
    def run_path(path, run_name=None):
        sim = cur_sim()
        sim.tlog('runpy.run_path', path=str(path))
        return {}


# ---------------------------------------------------------------------------- per-process Worker registry
class _PerProcAttr:
    """data descriptor installed on the metaclass: Worker._active_children / _children_lock per simulated process"""

    def __init__(self, which):
        self.which = which

    def __get__(self, cls, mcls=None):
        if cls is None:
            return self
        sim = cur_sim()
        me = sim.me() if sim else None
        if me is None:
            return [] if self.which == 'list' else Lock()
        p = me.proc
        if self.which == 'list':
            return p.registry
        if p.registry_lock is None:
            p.registry_lock = Lock()
        return p.registry_lock

    def __set__(self, cls, value):
        sim = cur_sim()
        me = sim.me()
        if self.which == 'list':
            me.proc.registry = value
        else:
            me.proc.registry_lock = value


# ---------------------------------------------------------------------------- installation
_installed = {'done': False}


def install(sim, extra_code_prefixes=()):
    """Patch the pyworkers modules' globals with simos facades and instrument their code objects.
    Meant to be called once per (forked) OS process, before Sim.run()."""
    _SIM['sim'] = sim
    if _installed['done']:
        return
    _installed['done'] = True
    logging.disable(logging.CRITICAL)
    import pyworkers
    import pyworkers.utils as U
    import pyworkers.worker as W
    import pyworkers.thread as T
    import pyworkers.process as P
    import pyworkers.remote as R
    import pyworkers.persistent as PE
    import pyworkers.persistent_thread as PT
    import pyworkers.persistent_process as PP
    import pyworkers.persistent_remote as PR
    import pyworkers.pool as PO
    import pyworkers.remote_server as RS
    import pyworkers.remote_context as RC
    import pyworkers.remote_pickle as RP
    from pyworkers._remote_pickle import state as RST, remote_pickler_3_6 as RPK

    th, mp, so = ThreadingFacade, MPFacade, SocketFacade()
    ecodes = []
    if _os.environ.get('VERIF_STDLIB_EVENT'):
        # threading.Event from the standard library's source (over the simulated C-semantics lock): experimental switch
        from . import stdq as _stdq
        _Ev, ecodes = _stdq.build_event()
        th = type('ThreadingFacadeWithStdEvent', (ThreadingFacade,), {'Event': _Ev})
    osf, sg, tm = OsFacade(), SignalFacade(), TimeFacade()

    U.threading = th
    U.mp = mp
    U.time = tm
    U.ctypes = CtypesFacade
    U.platform = PlatformFacade()
    qcodes = []
    import queue as _stdqueue
    if issubclass(U.Queue, getattr(_stdqueue, 'SimpleQueue', ())):
        # the tree under test uses the C implementation: atomic operations, modelled by SimQueue (C-call semantics)
        U.Queue = SimQueue
        sim.queue_model = 'SimpleQueue (C): atomic stand-in'
    else:
        # the tree under test uses queue.Queue: the standard library's own Queue / Condition *Python code* runs under the
        # simulator over simulated locks and clock (see stdq.py), so asynchronous exceptions can land inside it
        from . import stdq
        Q, _Cond, qcodes = stdq.build()
        U.Queue = type('Queue', (Q,), {'close': lambda self: None, '__module__': 'pyworkers.utils'})
        sim.queue_model = 'queue.Queue: real stdlib code under simulation'
    W.os = osf
    W.threading = th
    T.os = osf
    T.signal = sg
    T.threading = th
    P.os = osf
    P.threading = th
    P.mp = mp
    R.os = osf
    R.sys = SysFacade()
    R.runpy = RunpyFacade
    R.socket = so
    R.signal = sg
    R.threading = th
    R.mp = mp
    PP.mp = mp
    PR.socket = so
    PR.mp = mp
    PO.time = tm
    PO.threading = th
    PO.mp = mp
    RS.os = osf
    RS.mp = mp
    RS.signal = sg
    RS.socket = so
    RS.threading = th
    RC.os = osf
    RC.signal = sg
    RC.socket = so

    meta = type(W.Worker)
    # per-process registry (each real process has its own copy of these class attributes)
    try:
        type.__delattr__(W.Worker, '_active_children')
        type.__delattr__(W.Worker, '_children_lock')
    except AttributeError:
        pass
    U.SupportClassPropertiesMeta._active_children = _PerProcAttr('list')
    U.SupportClassPropertiesMeta._children_lock = _PerProcAttr('lock')

    repo = _os.path.dirname(_os.path.abspath(pyworkers.__file__ if hasattr(pyworkers, '__file__') else U.__file__))
    prefixes = [repo] + list(extra_code_prefixes)
    codes = core.collect_code_objects(prefixes, exclude_qualnames=(
        'BraceMessage', 'BraceStyleAdapter', 'get_logger', 'classproperty', 'staticproperty',
        'SupportClassPropertiesMeta', 'LazyModule', 'add_module_properties', 'python_is', 'is_windows',
        'typename', 'setproctitle', 'setthreadtitle', '_get_'))
    codes = codes + list(qcodes) + [c for c in ecodes if c not in qcodes]
    if not _os.environ.get('VERIF_NO_STDLIB_CONN'):
        # multiprocessing.connection: SimConnection inherits the stdlib's Python code for send / recv / framing; instrumenting
        # it makes every line of it a pre-emption point and every eval-breaker check in it a landing place (e.g. between
        # the header write and the payload write of a message larger than 16 KiB)
        import multiprocessing.connection as _mpc
        import types as _types
        for cls in (_mpc._ConnectionBase, _mpc.Connection):
            for name, v in sorted(vars(cls).items()):
                f = v.fget if isinstance(v, property) else v
                if isinstance(f, _types.FunctionType) and name not in ('__del__', '__init__', '__enter__', '__exit__', 'fileno', 'close'):
                    codes.append(f.__code__)
    core.instrument(codes)
    sim.n_instrumented = len(codes)
