"""Cooperative replacements for threading.* and queue.Queue running on the simos scheduler."""
import queue as _queue
import threading as _real_threading
from .core import WaitQ, DONE, NEW, RUNNABLE, BLOCKED, FROZEN

_SIM = {'sim': None}


def cur_sim():
    return _SIM['sim']


class Lock:
    def __init__(self):
        self._owner = None
        self._q = WaitQ()

    def acquire(self, blocking=True, timeout=-1):
        sim = cur_sim()
        t = sim.me() if sim else None
        if t is None:
            self._owner = 'host'
            return True
        deadline = None if (timeout is None or timeout < 0) else sim.now + timeout
        while self._owner is not None:
            if not blocking:
                return False
            rem = None if deadline is None else deadline - sim.now
            if rem is not None and rem <= 0:
                return False
            sim.probe('lock-contended')
            sim.block(t, (self._q,), timeout=rem, what='lock')
        self._owner = t
        return True

    def release(self):
        if self._owner is None:
            raise RuntimeError('release unlocked lock')
        self._owner = None
        sim = cur_sim()
        if sim:
            sim.wake_q(self._q)

    def locked(self):
        return self._owner is not None

    __enter__ = acquire

    def __exit__(self, *a):
        self.release()

    def __reduce__(self):
        raise TypeError("cannot pickle '_thread.lock' object")


class RLock(Lock):
    def __init__(self):
        super().__init__()
        self._count = 0

    def acquire(self, blocking=True, timeout=-1):
        sim = cur_sim()
        t = sim.me() if sim else None
        if self._owner is t and t is not None:
            self._count += 1
            return True
        r = super().acquire(blocking, timeout)
        if r:
            self._count = 1
        return r

    def release(self):
        self._count -= 1
        if self._count == 0:
            super().release()

    __enter__ = acquire


class Event:
    def __init__(self):
        self._flag = False
        self._q = WaitQ()

    def is_set(self):
        return self._flag

    isSet = is_set

    def set(self):
        self._flag = True
        sim = cur_sim()
        if sim:
            sim.wake_q(self._q)
            if sim.me() is not None:
                sim.yield_('event.set')

    def clear(self):
        self._flag = False

    def wait(self, timeout=None):
        sim = cur_sim()
        t = sim.me() if sim else None
        if t is None:
            return self._flag
        deadline = None if timeout is None else sim.now + timeout
        while not self._flag:
            rem = None if deadline is None else deadline - sim.now
            if rem is not None and rem <= 0:
                break
            sim.block(t, (self._q,), timeout=rem, what='event')
        return self._flag

    def __reduce__(self):
        raise TypeError("cannot pickle '_thread.lock' object")


class Thread:
    """threading.Thread replacement"""

    def __init__(self, group=None, target=None, name=None, args=(), kwargs=None, *, daemon=None):
        self._target = target
        self._args = args
        self._kwargs = kwargs or {}
        self._name = name
        sim = cur_sim()
        me = sim.me()
        self._daemonic = daemon if daemon is not None else (me.daemon if me else False)
        self._st = None
        self._started = False

    @property
    def name(self):
        return self._name

    @name.setter
    def name(self, v):
        self._name = v

    @property
    def daemon(self):
        return self._daemonic

    @daemon.setter
    def daemon(self, v):
        self._daemonic = v

    @property
    def ident(self):
        return self._st.ident if self._st is not None else None

    @property
    def native_id(self):
        return self._st.native_id if self._st is not None else None

    def run(self):
        if self._target is not None:
            self._target(*self._args, **self._kwargs)

    def start(self):
        if self._started:
            raise RuntimeError('threads can only be started once')
        sim = cur_sim()
        me = sim.me()
        hook = sim.knobs.get('_thread_start_hook')
        if hook is not None:
            hook(sim, me, self)
        self._started = True
        role = getattr(self._target, '__qualname__', None) or self._name
        self._st = sim.new_thread(me.proc, self.run, daemon=self._daemonic, role=role)
        sim.start_thread(self._st)
        sim.yield_('thread-start')

    def is_alive(self):
        st = self._st
        if st is None:
            return False
        return st.state in (RUNNABLE, BLOCKED, NEW) or (st.state == FROZEN and False)

    def join(self, timeout=None):
        if not self._started:
            raise RuntimeError('cannot join thread before it is started')
        sim = cur_sim()
        t = sim.me()
        st = self._st
        if st is t:
            raise RuntimeError('cannot join current thread')
        if timeout is not None and timeout < 0:
            timeout = 0
        deadline = None if timeout is None else sim.now + timeout
        sim.yield_('join')
        while st.state != DONE:
            rem = None if deadline is None else deadline - sim.now
            if rem is not None and rem <= 0:
                break
            sim.block(t, (st.done_q,), timeout=rem, what=f'join:{st.name}')

    def __reduce__(self):
        raise TypeError("cannot pickle '_thread.lock' object")


def get_ident():
    sim = cur_sim()
    t = sim.me() if sim else None
    if t is None:
        return _real_threading.get_ident()
    return t.ident


def get_native_id():
    sim = cur_sim()
    t = sim.me() if sim else None
    if t is None:
        return _real_threading.get_native_id()
    return t.native_id


class _CurThread:
    def __init__(self, st):
        self._st = st
        self.ident = st.ident
        self.native_id = st.native_id
        self.name = st.name
        self.daemon = st.daemon

    def is_alive(self):
        return True


def current_thread():
    sim = cur_sim()
    return _CurThread(sim.me())


def enumerate_():
    sim = cur_sim()
    me = sim.me()
    return [_CurThread(t) for t in me.proc.threads if t.state in (RUNNABLE, BLOCKED)]


class ThreadingFacade:
    """object standing in for the `threading` module inside pyworkers modules"""
    Thread = Thread
    Event = Event
    Lock = Lock
    RLock = RLock
    local = _real_threading.local
    get_ident = staticmethod(get_ident)
    get_native_id = staticmethod(get_native_id)
    current_thread = staticmethod(current_thread)
    enumerate = staticmethod(enumerate_)
    main_thread = staticmethod(lambda: _CurThread(cur_sim().me().proc.main))


def _c_like(fn):
    fn._sim_c = True
    return fn


class SimQueue:
    """queue.SimpleQueue (C implementation): every operation is atomic with respect to asynchronous exceptions - the
    eval-breaker check happens when the call returns to the (instrumented) caller; a blocked get() is not interrupted"""

    def __init__(self, maxsize=0):
        self._items = []
        self._q = WaitQ()

    def close(self):
        pass

    @_c_like
    def qsize(self):
        return len(self._items)

    @_c_like
    def empty(self):
        return not self._items

    @_c_like
    def put(self, item, block=True, timeout=None):
        sim = cur_sim()
        sim.yield_('q.put', deliver=False)
        self._items.append(item)
        sim.wake_q(self._q)
        sim.yield_('q.put-done', deliver=False)
        sim.c_return_point(sim.me())

    @_c_like
    def put_nowait(self, item):
        sim = cur_sim()
        sim.yield_('q.put', deliver=False)
        self._items.append(item)
        sim.wake_q(self._q)
        sim.c_return_point(sim.me())

    def _get(self, block, timeout):
        sim = cur_sim()
        t = sim.me()
        sim.yield_('q.get', deliver=False)
        if timeout is not None and timeout < 0:
            raise ValueError("'timeout' must be a non-negative number")
        deadline = None if timeout is None else sim.now + timeout
        while not self._items:
            if not block:
                return sim, t, False, None
            rem = None if deadline is None else deadline - sim.now
            if rem is not None and rem <= 0:
                return sim, t, False, None
            sim.block(t, (self._q,), timeout=rem, what='queue.get', deliver=False)
        return sim, t, True, self._items.pop(0)

    @_c_like
    def get(self, block=True, timeout=None):
        sim, t, ok, item = self._get(block, timeout)
        if not ok:
            raise _queue.Empty
        sim.c_return_point(t)       # the item has been taken: an exception raised now loses it (as in CPython)
        return item

    @_c_like
    def get_nowait(self):
        sim, t, ok, item = self._get(False, None)
        if not ok:
            raise _queue.Empty
        sim.c_return_point(t)
        return item
