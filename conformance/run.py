"""Conformance of simos against the real kernel / stdlib: the same micro-scenarios run on both back ends and
must produce the same observations."""
import os
import sys
import time
import errno
import struct
import socket as rsocket
import multiprocessing as rmp
import multiprocessing.connection as rconn


def obs(fn, *a):
    try:
        r = fn(*a)
        if isinstance(r, bytes):
            return ('ok', r.decode('latin1'))
        if isinstance(r, (list, tuple)):
            return ('ok', len(r))
        return ('ok', r if isinstance(r, (int, bool, str, type(None))) else type(r).__name__)
    except OSError as e:
        return ('err', type(e).__name__, errno.errorcode.get(e.errno, e.errno) if e.errno else str(e))
    except EOFError:
        return ('err', 'EOFError')
    except Exception as e:   # noqa
        return ('err', type(e).__name__)


class Real:
    name = 'real'
    socket = rsocket

    def settle(self):
        time.sleep(0.03)

    def Pipe(self):
        return rmp.Pipe()

    def wait(self, objs, timeout=None):
        return rconn.wait(objs, timeout)

    def dup(self, s):
        return s.dup()

    def alarm(self, d):
        import signal
        signal.signal(signal.SIGALRM, lambda *a: None)
        signal.setitimer(signal.ITIMER_REAL, d)


class SimB:
    name = 'sim'

    def __init__(self):
        from simos.sockshim import SocketFacade
        from simos.mpshim import MPFacade
        self.socket = SocketFacade()
        self.mp = MPFacade

    def settle(self):
        from simos.sync import cur_sim
        cur_sim().sleep(0.03)

    def Pipe(self):
        return self.mp.Pipe()

    def wait(self, objs, timeout=None):
        return self.mp.connection.wait(objs, timeout)

    def dup(self, s):
        return s.dup()

    def alarm(self, d):
        import signal
        from simos.shims import SignalFacade, sim_kill
        from simos.sync import Thread, cur_sim
        sim = cur_sim()
        SignalFacade.signal(signal.SIGALRM, lambda *a: None)
        pid = sim.me().proc.pid

        def fire():
            sim.sleep(d)
            sim_kill(pid, signal.SIGALRM)
        Thread(target=fire, daemon=True).start()


def linger(B, s, on, secs):
    s.setsockopt(B.socket.SOL_SOCKET, B.socket.SO_LINGER, struct.pack('ii', on, secs))


def pair(B):
    S = B.socket
    l = S.socket(S.AF_INET, S.SOCK_STREAM)
    l.bind(('127.0.0.1', 0))
    l.listen()
    c = S.socket(S.AF_INET, S.SOCK_STREAM)
    c.connect(l.getsockname())
    s, _ = l.accept()
    return l, c, s


# ------------------------------------------------------------------------------------------ scenarios
def sc_connect_before_accept(B):
    S = B.socket
    l = S.socket(S.AF_INET, S.SOCK_STREAM)
    l.bind(('127.0.0.1', 0))
    l.listen()
    c = S.socket(S.AF_INET, S.SOCK_STREAM)
    o = [obs(c.connect, l.getsockname()), obs(c.sendall, b'abc')]
    s, _ = l.accept()
    o.append(obs(s.recv, 10))
    o.append(obs(lambda: s.getpeername() == c.getsockname()))
    return o


def sc_connect_refused(B):
    S = B.socket
    l = S.socket(S.AF_INET, S.SOCK_STREAM)
    l.bind(('127.0.0.1', 0))
    l.listen()
    addr = l.getsockname()
    l.close()
    c = S.socket(S.AF_INET, S.SOCK_STREAM)
    return [obs(c.connect, addr)]


def sc_fin_then_write(B):
    l, c, s = pair(B)
    c.sendall(b'xy')
    c.close()
    B.settle()
    o = [obs(s.recv, 10), obs(s.recv, 10), obs(s.recv, 10), obs(s.sendall, b'1')]
    B.settle()
    o += [obs(s.sendall, b'2'), obs(s.sendall, b'3'), obs(s.recv, 10)]
    return o


def sc_linger0_rst(B):
    l, c, s = pair(B)
    linger(B, c, 1, 0)
    c.sendall(b'x')
    B.settle()
    c.close()
    B.settle()
    return [obs(s.recv, 10), obs(s.recv, 10), obs(s.recv, 10), obs(s.sendall, b'1'), obs(s.sendall, b'2')]


def sc_rst_write_first(B):
    l, c, s = pair(B)
    linger(B, c, 1, 0)
    c.close()
    B.settle()
    return [obs(s.sendall, b'1'), obs(s.sendall, b'2'), obs(s.recv, 10), obs(s.recv, 10)]


def sc_close_unread_rst(B):
    l, c, s = pair(B)
    s.sendall(b'data')
    B.settle()
    c.close()
    B.settle()
    return [obs(s.recv, 10), obs(s.recv, 10), obs(s.sendall, b'q')]


def sc_shutdown_rd_via_dup(B):
    l, c, s = pair(B)
    d = B.dup(s)
    o = [obs(d.shutdown, B.socket.SHUT_RD), obs(s.recv, 10)]
    c.sendall(b'late')
    B.settle()
    o += [obs(s.recv, 10), obs(s.recv, 10), obs(s.sendall, b'still-writable')]
    B.settle()
    o.append(obs(c.recv, 100))
    return o


def sc_shutdown_wr_dup_still_open(B):
    l, c, s = pair(B)
    d = B.dup(s)
    o = [obs(s.shutdown, B.socket.SHUT_WR)]
    B.settle()
    o += [obs(c.recv, 10), obs(s.sendall, b'x'), obs(d.sendall, b'x')]
    s.close()
    c.sendall(b'to-dup')
    B.settle()
    o.append(obs(d.recv, 10))
    return o


def sc_listener_close_resets_queued(B):
    S = B.socket
    l = S.socket(S.AF_INET, S.SOCK_STREAM)
    l.bind(('127.0.0.1', 0))
    l.listen()
    c = S.socket(S.AF_INET, S.SOCK_STREAM)
    c.connect(l.getsockname())
    c.sendall(b'hello')
    B.settle()
    l.close()
    B.settle()
    return [obs(c.recv, 10), obs(c.recv, 10)]


def sc_shutdown_after_reset(B):
    l, c, s = pair(B)
    linger(B, c, 1, 0)
    c.close()
    B.settle()
    return [obs(s.shutdown, B.socket.SHUT_WR), obs(s.shutdown, B.socket.SHUT_RD)]


def sc_shutdown_after_both_fins(B):
    l, c, s = pair(B)
    o = [obs(s.shutdown, B.socket.SHUT_WR)]
    B.settle()
    c.close()
    B.settle()
    o += [obs(s.recv, 10), obs(s.shutdown, B.socket.SHUT_WR), obs(s.shutdown, B.socket.SHUT_RD)]
    return o


def sc_shutdown_wr_twice_peer_open(B):
    l, c, s = pair(B)
    d = B.dup(s)
    return [obs(s.shutdown, B.socket.SHUT_WR), obs(d.shutdown, B.socket.SHUT_WR), obs(c.recv, 5)]


def sc_pipe_eof_and_truncation(B):
    a, b = B.Pipe()
    a.send('m1')
    a.close()
    o = [obs(b.recv), obs(b.recv), obs(b.poll)]
    a2, b2 = B.Pipe()
    a2.send_bytes(b'z' * 100)
    # truncated message: header promises more than is there
    a3, b3 = B.Pipe()
    a3._send(struct.pack('!i', 50) + b'short')
    a3.close()
    o.append(obs(b3.recv_bytes))
    return o


def sc_pipe_close_unread(B):
    a, b = B.Pipe()
    a.send('unread')
    b.close()
    o = [obs(a.poll), obs(a.recv), obs(a.recv), obs(a.send, 'x')]
    return o


def sc_pipe_close_unread_write_first(B):
    a, b = B.Pipe()
    a.send('unread')
    b.close()
    return [obs(a.send, 'x'), obs(a.send, 'y'), obs(a.recv)]


def sc_pipe_write_to_closed(B):
    a, b = B.Pipe()
    b.close()
    return [obs(a.send, 'x'), obs(a.poll), obs(a.recv)]


def sc_wait_returns_all(B):
    a, b = B.Pipe()
    c, d = B.Pipe()
    e, f = B.Pipe()
    a.send(1)
    c.send(2)
    r = B.wait([b, d, f], 0)
    o = [('ready', [x is b for x in r], len(r))]
    o.append(obs(lambda: len(B.wait([f], 0.01))))
    e.close()
    o.append(obs(lambda: len(B.wait([f], 0.01))))
    return o


def sc_closed_handle(B):
    a, b = B.Pipe()
    a.close()
    return [obs(a.send, 1), obs(a.recv), obs(lambda: a.closed)]


def sc_tcp_big_then_close(B):
    l, c, s = pair(B)
    s.sendall(b'a' * 5000)
    s.shutdown(B.socket.SHUT_WR)
    s.close()
    B.settle()
    n = 0
    o = []
    while True:
        r = obs(c.recv, 100000)
        if r[0] != 'ok' or r[1] == '':
            o.append(r)
            break
        n += len(r[1])
    o.append(n)
    return o


def sc_getpeername_after_reset(B):
    S = B.socket
    l = S.socket(S.AF_INET, S.SOCK_STREAM)
    l.bind(('127.0.0.1', 0))
    l.listen()
    c = S.socket(S.AF_INET, S.SOCK_STREAM)
    c.connect(l.getsockname())
    linger(B, c, 1, 0)
    c.close()                      # RST before the server accepts
    B.settle()
    o = []
    try:
        s, addr = l.accept()
        o.append(('accepted', isinstance(addr, tuple)))
        o.append(obs(lambda: isinstance(s.getpeername(), tuple)))
        o.append(obs(lambda: isinstance(s.getsockname(), tuple)))
        o.append(obs(s.recv, 10))
    except OSError as e:
        o.append(('accept-err', type(e).__name__))
    # established connection, then reset
    l2, c2, s2 = pair(B)
    linger(B, c2, 1, 0)
    c2.close()
    B.settle()
    o.append(obs(lambda: isinstance(s2.getpeername(), tuple)))
    # established, peer closes normally (FIN)
    l3, c3, s3 = pair(B)
    c3.close()
    B.settle()
    o.append(obs(lambda: isinstance(s3.getpeername(), tuple)))
    return o


def sc_send_short_on_signal(B):
    # a blocking send() whose buffer is full returns a short count when a handled signal interrupts it; nobody reads
    l, c, s = pair(B)
    big = b'z' * (8 << 20)
    B.alarm(0.2)
    n = c.send(big)
    return [('short', 0 < n < len(big))]


def sc_recv_waitall_short_on_signal(B):
    # recv(n, MSG_WAITALL) returns the bytes copied so far when a handled signal interrupts it after part of the data arrived
    l, c, s = pair(B)
    c.sendall(b'a' * 10)
    B.settle()
    B.alarm(0.2)
    d = s.recv(100, B.socket.MSG_WAITALL)
    o = [('short', d)]
    # ... and everything asked for when the rest is already there
    c.sendall(b'b' * 30)
    B.settle()
    o.append(('full', s.recv(20, B.socket.MSG_WAITALL)))
    c.close()
    B.settle()
    o.append(('eof-short', s.recv(20, B.socket.MSG_WAITALL)))
    return o


SCENARIOS = [v for k, v in sorted(globals().items()) if k.startswith('sc_')]


def run_real():
    B = Real()
    return {f.__name__: f(B) for f in SCENARIOS}


def run_sim():
    from simos import core, shims
    out = {}
    sim = core.Sim(1, knobs={'max_steps': 10 ** 7}, policy=core.Policy('cooperative'))
    shims.install(sim)

    def root():
        B = SimB()
        for f in SCENARIOS:
            try:
                out[f.__name__] = f(B)
            except BaseException as e:   # noqa
                import traceback
                out[f.__name__] = ['CRASH', traceback.format_exc()[-400:]]
    o = sim.run(root)
    if o != 'finished':
        out['__outcome__'] = [o, sim.outcome_info]
    return out


def main(quiet=False):
    import json
    r, w = os.pipe()
    pid = os.fork()
    if pid == 0:
        os.close(r)
        try:
            res = run_sim()
            os.write(w, json.dumps(res, default=repr).encode())
        finally:
            os._exit(0)
    os.close(w)
    data = b''
    while True:
        b = os.read(r, 1 << 16)
        if not b:
            break
        data += b
    os.waitpid(pid, 0)
    sim = json.loads(data) if data else {}
    real = json.loads(json.dumps(run_real(), default=repr))
    bad = 0
    for k in sorted(real):
        same = real[k] == sim.get(k)
        if not same:
            bad += 1
        if not quiet or not same:
            print(('OK   ' if same else 'DIFF ') + k)
            if not same:
                print('   real:', real[k])
                print('   sim :', sim.get(k))
    for k in sim:
        if k not in real:
            print('extra', k, sim[k])
            bad += 1
    print(f'conformance: {len(real)} scenarios, {bad} mismatches')
    return bad == 0
