"""Self-validation of the machinery: determinism, conformance of simos against the real kernel, sensitivity."""
import os
import sys
import json
import time
import importlib
import compileall
import subprocess

from . import engine

PROPS_WITH_SMOKE = ['c01', 'c02', 'c03', 'c04', 'c05', 'c06', 'c07', 'c08', 'c09', 'c10', 'c11', 'c12', 'c15', 'c16', 'c17', 'c18', 'c19', 'c20']


def determinism(nseeds=40, props=None, jobs=None):
    """every case is executed twice in separate fresh processes (and at two worker counts); digests must agree"""
    from .check import Ctx
    bad = 0
    badr = 0
    total = 0
    for name in props or PROPS_WITH_SMOKE:
        try:
            prop = importlib.import_module('props.' + name)
        except ModuleNotFoundError:
            continue
        if not hasattr(prop, 'smoke_cases'):
            continue
        ctx = Ctx(prop, 'quick', 12345, 16)
        cases = prop.smoke_cases(ctx, nseeds)
        r1 = engine.run_batch(prop, [dict(c, want_decisions=True) for c in cases], nproc=16)
        r2 = engine.run_batch(prop, cases, nproc=3)
        # replay fidelity: the recorded decision list, replayed strictly as a script, must give the very same execution
        scripted = [dict(c, script=engine.unrle(a.get('decisions') or []), lenient=False) for c, a in zip(cases, r1)]
        r3 = engine.run_batch(prop, scripted, nproc=16)
        for c, a, b, s in zip(cases, r1, r2, r3):
            total += 1
            if a.get('digest') != b.get('digest') or a.get('outcome') != b.get('outcome'):
                bad += 1
                if bad <= 3:
                    print('NONDETERMINISTIC', prop.ID, json.dumps(c)[:300], a.get('digest'), b.get('digest'), a.get('outcome'), b.get('outcome'))
            if a.get('digest') != s.get('digest') or a.get('outcome') != s.get('outcome'):
                badr += 1
                if badr <= 3:
                    print('REPLAY-DIVERGES', prop.ID, json.dumps(c)[:300], a.get('digest'), s.get('digest'), a.get('outcome'), s.get('outcome'))
    print(f'determinism: {total} cases x 2 executions, {bad} divergences; scripted replay of the recorded decisions: {badr} divergences')
    return bad == 0 and badr == 0


def main():
    cmd = sys.argv[1] if len(sys.argv) > 1 else 'setup'
    if cmd == 'setup':
        ok = compileall.compile_dir(engine.VERIF, quiet=2, maxlevels=3)
        from conformance import run as conf
        ok2 = conf.main(quiet=True)
        ok3 = determinism(12)
        return 0 if (ok and ok2 and ok3) else 1
    if cmd == 'determinism':
        n = int(sys.argv[2]) if len(sys.argv) > 2 else 200
        return 0 if determinism(n) else 1
    if cmd == 'conformance':
        from conformance import run as conf
        return 0 if conf.main(quiet=False) else 1
    if cmd == 'sensitivity':
        from . import sensitivity
        return sensitivity.main(sys.argv[2:])
    if cmd == 'regress':
        from . import regress_fixes
        return regress_fixes.main(sys.argv[2:])
    print('unknown command')
    return 2
