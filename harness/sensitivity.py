"""Sensitivity self-test: every kept seeded change (seeded/<name>/patch.diff) is applied to a scratch worktree of /repo HEAD
(never to /repo itself) and the checks expected to catch it are run against that tree (VERIF_REPO).  A change counts as caught
when at least one of those checks prints a VIOLATION line that it does not print on the unchanged tree.

usage: ./selftest sensitivity [name-substring ...]      (writes seeded/RESULTS.json)"""
import json
import os
import re
import subprocess
import sys
import tempfile

from . import engine

V = engine.VERIF

# checks expected to catch each change (default: the property the change was written against)
EXPECT = {
    'c01_recv_header_except': ['C01', 'C04'],
    'c02b_wait_remote_dead_guard': ['C02', 'C01'],
    'c05b_next_result_nowait_first': ['C05', 'C06'],
    'c08b_retries_not_reset': ['C09'],
    'c09b_restart_guard_dropped': ['C09', 'C17'],
    'c11b_stale_patch_stack': ['C11', 'C15'],
    'c16b_success_report_in_else': ['C16', 'C01', 'C03'],
    'c16_wait_early_return': ['C16', 'C01'],
    'c17b_restart_workers_queue_close': ['C09'],
    'c06_send_two_writes': ['C06', 'C01', 'C03'],
    'c07_late_result_else': ['C07', 'C08'],
    'c07b_enqueue_failure_drops_input': ['C07', 'C08'],
    'c12c_context_children_remove_while_iterating': ['C12', 'C18'],
    'c19b_dead_flag_set_by_frontend': ['C19', 'C04'],
    'c07c_pending_miscount_on_enqueue_death': ['C07', 'C08'],
    'c01d_is_child_by_recycled_ident': ['C01', 'C04', 'C16'],
    'c12d_no_end_marker_on_connection_closed': ['C12', 'C06'],
    'c17d_server_side_wait_inverts_dead_flag': ['C17', 'C09', 'C04'],
    'c03e_remote_terminate_returns_on_ctrl_failure': ['C04'],
    'c04e_release_child_shutdown_unguarded': ['C04', 'C09'],
    'c06e_defaults_copied_once': ['C06', 'C05'],
    'c07e_kwargs_alias_defaults': ['C07', 'C05'],
    'c17e_is_alive_skips_server_when_result_known': ['C17', 'C09'],
    'c20d_server_side_pid_not_set_after_start': ['C20', 'C12'],
    'c10d_header_topup_loop_without_eof_check': ['C10', 'C11'],
}
# changes that are harmless on the current HEAD by construction (a later fix: commit made the trigger unreachable)
NEUTRALISED = {
    'c11_getpeername_log': 'the ENOTCONN it provokes is caught since /repo b29977d; the check correctly stays quiet',
    'c20d_server_side_pid_not_set_after_start': 'it exposed a genuine defect of the same shape (the window exists without the change too); since /repo 6a498ac the server-side pid is read from the spawned Process object, which makes the removed assignment redundant; the checks correctly stay quiet',
}


def run(cmd, **kw):
    return subprocess.run(cmd, stdout=subprocess.PIPE, stderr=subprocess.STDOUT, text=True, **kw)


def sigs_of(out):
    return set(re.findall(r'^  signature: (\S+)', out, flags=re.M))


def main(argv):
    names = sorted(d for d in os.listdir(os.path.join(V, 'seeded')) if os.path.exists(os.path.join(V, 'seeded', d, 'patch.diff')))
    if argv:
        names = [n for n in names if any(a in n for a in argv)]
    repo = os.environ.get('VERIF_REPO', '/repo')
    results = {}
    bad = 0
    for n in names:
        meta = json.load(open(os.path.join(V, 'seeded', n, 'meta.json')))
        checks = EXPECT.get(n, [meta['property']])
        d = tempfile.mkdtemp(prefix='sens_', dir='/tmp')
        os.rmdir(d)
        r = run(['git', '-C', repo, 'worktree', 'add', '-q', '--detach', d, 'HEAD'])
        try:
            if r.returncode != 0:
                results[n] = {'status': 'worktree-failed', 'detail': r.stdout[-300:]}
                bad += 1
                continue
            r = run(['git', '-C', d, 'apply', os.path.join(V, 'seeded', n, 'patch.diff')])
            if r.returncode != 0:
                results[n] = {'status': 'patch-does-not-apply', 'detail': r.stdout[-300:]}
                bad += 1
                print(f'{n}: PATCH DOES NOT APPLY to HEAD', flush=True)
                continue
            caught = {}
            for cid in checks:
                env = dict(os.environ, VERIF_REPO=d)
                o = run([os.path.join(V, 'check'), cid, '--tier', 'quick', '--no-evidence'], env=env, cwd=V).stdout
                s = sigs_of(o)
                if 'HARNESS-ERROR' in o:
                    caught[cid] = ['HARNESS-ERROR'] + sorted(s)[:3]
                elif s:
                    caught[cid] = sorted(s)[:4]
            ok = any(v and v[0] != 'HARNESS-ERROR' for v in caught.values())
            if n in NEUTRALISED:
                status = 'neutralised-and-quiet' if not ok else 'neutralised-but-flagged'
            else:
                status = 'caught' if ok else 'MISSED'
                if not ok:
                    bad += 1
            results[n] = {'status': status, 'checks': checks, 'signatures': caught, 'note': NEUTRALISED.get(n)}
            print(f'{n}: {status} ' + ' '.join(f'{k}:{len(v)}' for k, v in caught.items()), flush=True)
        finally:
            run(['git', '-C', repo, 'worktree', 'remove', '--force', d])
    rp = os.path.join(V, 'seeded', 'RESULTS.json')
    allres = {}
    if argv and os.path.exists(rp):
        try:
            allres = json.load(open(rp)).get('results') or {}
        except Exception:
            allres = {}
    allres.update(results)
    with open(rp, 'w') as f:
        json.dump({'repo_head': run(['git', '-C', repo, 'rev-parse', 'HEAD']).stdout.strip(), 'results': allres}, f, indent=1, sort_keys=True)
    print(f'sensitivity: {len(names)} seeded changes, {bad} not caught / not applicable')
    return 0 if bad == 0 else 1
