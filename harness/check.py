"""Check orchestration: plan -> batches -> classification -> minimisation -> replay files -> evidence."""
import os
import sys
import json
import time
import random
import importlib

from . import engine
from .engine import run_batch, run_one_forked, signature, write_replay, load_findings, h64, unrle, rle, jdefault

EVID = os.path.join(engine.VERIF, 'evidence')

POLICIES = [{'kind': 'random', 'p_stay': 0.0}, {'kind': 'random', 'p_stay': 0.5}, {'kind': 'random', 'p_stay': 0.9},
            {'kind': 'random', 'p_stay': 0.99}, {'kind': 'pct', 'depth': 1}, {'kind': 'pct', 'depth': 2},
            {'kind': 'pct', 'depth': 3}, {'kind': 'cooperative'}]


def draw_env(rng, tcp=False, adversarial_ok=False, est_len=2000):
    """swarm configuration: scheduling policy + kernel knobs for one run"""
    pol = dict(rng.choice(POLICIES))
    if pol['kind'] == 'pct':
        pol['est_len'] = rng.choice([300, 1000, 3000, 8000]) if est_len is None else rng.choice([est_len // 4, est_len, est_len * 3])
    knobs = {'pipe_cap': rng.choice([4096, 65536, 65536, 95232, 1 << 20])}
    if rng.random() < 0.25:
        knobs['spawn_delay'] = rng.choice([0.001, 0.05, 0.5])
    if tcp:
        knobs['tcp_cap'] = rng.choice([8192, 212992, 212992, 3981312])
        knobs['latency'] = rng.choice([0.0, 0.0, 0.0005, 0.005, 0.02])
        knobs['segmentation'] = rng.choice([0.0, 0.0, 0.3, 0.8])
    if adversarial_ok and rng.random() < 0.3:
        knobs['clock'] = 'adversarial'
        knobs['stall_rate'] = rng.choice([0.002, 0.01, 0.03])
    return pol, knobs


class Ctx:
    def __init__(self, prop, tier, seed, jobs):
        self.prop = prop
        self.tier = tier
        self.seed = seed
        self.jobs = jobs
        self.rng = random.Random(h64(seed, prop.ID, 'plan'))
        self.t0 = time.time()
        self.n = 0
        self.coarse = set()
        self.nontrivial_coarse = set()
        self.outcomes = {}
        self.faults = {}
        self.probes = {}
        self.landing_sites = set()
        self.landings_unreachable = 0
        self.steps = 0
        self.sim_s = 0.0
        self.policies = {}
        self.clocks = {}
        self.samples = []
        self.harness_errors = []
        self.violations = []       # (case, res, v, sig)
        self.known_seen = {}
        self.inconclusive = 0
        self.phases = []
        self.exhaustive_info = None
        self.extra = {}
        self.budget_s = None

    def case_seed(self, *parts):
        return h64(self.seed, self.prop.ID, *parts)

    def time_left(self):
        if self.budget_s is None:
            return 1e9
        return self.budget_s - (time.time() - self.t0)

    def run(self, cases, label=''):
        for c in cases:
            c.setdefault('verif_seed', self.seed)
        t0 = time.time()
        results = run_batch(self.prop, cases, nproc=self.jobs)
        self.phases.append({'label': label, 'cases': len(cases), 'wall_s': round(time.time() - t0, 2)})
        for case, res in zip(cases, results):
            self._account(case, res)
        return results

    def _account(self, case, res):
        self.n += int(res.get('evals') or 1)
        o = res.get('outcome')
        self.outcomes[o] = self.outcomes.get(o, 0) + 1
        if o == 'harness-error':
            self.harness_errors.append({'case': case, 'err': res.get('harness_error')})
            return
        if o in ('step-cap', 'caller-killed'):
            self.inconclusive += 1
        st = res.get('stats') or {}
        self.steps += st.get('steps', 0) + st.get('nsys', 0)
        self.sim_s += st.get('sim_s', 0.0)
        for k, v in (st.get('faults') or {}).items():
            self.faults[k] = self.faults.get(k, 0) + v
        for f in case.get('faults') or []:
            k = f.get('kind')
            self.faults[k] = self.faults.get(k, 0) + (1 if (st.get('probes') or {}).get('fault-fired:' + str(k)) else 0)
        for k, v in (st.get('probes') or {}).items():
            self.probes[k] = self.probes.get(k, 0) + v
        for s in st.get('landing_sites') or []:
            self.landing_sites.add(tuple(s))
        self.landings_unreachable += st.get('landings_unreachable', 0)
        pk = json.dumps(case.get('policy'), sort_keys=True)
        self.policies[pk] = self.policies.get(pk, 0) + 1
        ck = (case.get('knobs') or {}).get('clock', 'responsive')
        self.clocks[ck] = self.clocks.get(ck, 0) + 1
        co = res.get('coarse')
        self.coarse.add(co)
        if res.get('nontrivial'):
            self.nontrivial_coarse.add(co)
        if len(self.samples) < 4 and (self.n % 97 == 1 or len(self.samples) < 2):
            self.samples.append({'case': _slim(case), 'outcome': o, 'obs': res.get('obs'),
                                 'stats': {k: st.get(k) for k in ('steps', 'nsys', 'switches', 'preempts', 'sim_s', 'faults')}})
        for v in res.get('violations') or []:
            sig = signature(self.prop.ID, case, v)
            self.violations.append((case, res, v, sig))


def _slim(case):
    c = {k: v for k, v in case.items() if k not in ('script',)}
    return c


# ----------------------------------------------------------------------------------------- minimisation
def minimise(prop, case, res, sig, budget=120, jobs=16):
    """shrink scenario (property-specific candidates) and schedule (prefix / chunk removal under lenient replay)
    while the signature is preserved. Returns (case, res)."""
    def holds(results, cands):
        for c, r in zip(cands, results):
            if r.get('outcome') == 'harness-error':
                continue
            if sig in [signature(prop.ID, c, v) for v in r.get('violations') or []]:
                return c, r
        return None

    best_case = dict(case)
    best_case['script'] = unrle(res.get('decisions') or [])
    best_case['lenient'] = True
    best_res = res
    used = 0
    # (a) scenario
    shr = getattr(prop, 'shrink', None)
    progress = True
    while shr and progress and used < budget:
        progress = False
        cands = []
        for c in shr(best_case):
            c = dict(c)
            c['script'] = best_case.get('script')
            c['lenient'] = True
            cands.append(c)
            if len(cands) >= 32:
                break
        if not cands:
            break
        rs = run_batch(prop, cands, nproc=jobs)
        used += len(cands)
        hit = holds(rs, cands)
        if hit:
            best_case, best_res = hit
            best_case['script'] = unrle(best_res.get('decisions') or [])
            progress = True
    # (b) schedule: try cooperative fallback after a prefix
    script = best_case.get('script') or []
    while used < budget and len(script) > 0:
        cands = []
        n = len(script)
        for cut in sorted({0, n // 8, n // 4, n // 2, (3 * n) // 4, (7 * n) // 8}):
            if cut < n:
                c = dict(best_case)
                c['script'] = script[:cut]
                cands.append(c)
        rs = run_batch(prop, cands, nproc=jobs)
        used += len(cands)
        hit = holds(rs, cands)
        if not hit:
            break
        if len(hit[0]['script']) >= len(script):
            break
        best_case, best_res = hit
        script = best_case['script']
    return best_case, best_res


def _queue_model():
    try:
        import queue
        import pyworkers.utils as U
        if issubclass(U.Queue, getattr(queue, 'SimpleQueue', ())):
            return 'pyworkers.utils.Queue is a queue.SimpleQueue (C): modelled by an atomic stand-in with C-call delivery semantics'
        return 'pyworkers.utils.Queue is a queue.Queue: the stdlib source of queue.Queue and threading.Condition runs under the simulator (simos/stdq.py)'
    except Exception as e:   # noqa
        return f'queue model unknown ({type(e).__name__})'


# ----------------------------------------------------------------------------------------- main
def main(argv=None):
    import argparse
    ap = argparse.ArgumentParser()
    ap.add_argument('prop')
    ap.add_argument('--tier', default=os.environ.get('VERIF_TIER', 'quick'))
    ap.add_argument('--seed', type=int, default=int(os.environ.get('VERIF_SEED', '1')))
    ap.add_argument('--replay')
    ap.add_argument('--jobs', type=int, default=int(os.environ.get('VERIF_JOBS', '16')))
    ap.add_argument('--budget', type=float, default=None, help='wall seconds for the exploration phase')
    ap.add_argument('--no-evidence', action='store_true')
    ap.add_argument('--trace', action='store_true')
    ap.add_argument('--refresh-findings', action='store_true',
                    help='maintenance (never used by registered commands): re-record stale replays of listed known findings')
    a = ap.parse_args(argv)
    if os.environ.get('PYTHONHASHSEED') != '0':
        os.environ['PYTHONHASHSEED'] = '0'
        os.execv(sys.executable, [sys.executable] + sys.argv)
    prop = importlib.import_module('props.' + a.prop.lower())
    print(f'VERIF_SEED={a.seed} property={prop.ID} tier={a.tier} jobs={a.jobs}', flush=True)
    if a.replay:
        ok, res, sigs = engine.replay_file(prop, a.replay)
        if a.trace:
            print(json.dumps(res, indent=1, default=jdefault)[:int(os.environ.get("VERIF_TRACE_CHARS", "20000"))])
        if ok:
            with open(a.replay) as f:
                doc = json.load(f)
            print(f'VIOLATION property={prop.ID} replay={a.replay}')
            return 1
        return 0
    t0 = time.time()
    ctx = Ctx(prop, a.tier, a.seed, a.jobs)
    ctx.budget_s = a.budget if a.budget is not None else getattr(prop, 'BUDGET', {}).get(a.tier)
    rc = 0
    # known findings first
    known = [f for f in load_findings() if f.get('property') == prop.ID and f.get('status') == 'known']
    known_sigs = {}
    known_pats = []
    stale = []
    import re
    for f in known:
        known_sigs[f['signature']] = f
        if f.get('signature_pattern'):
            known_pats.append((re.compile(f['signature_pattern']), f['signature']))
        rp = os.path.join(engine.VERIF, f['replay'])
        ok, res, sigs = engine.replay_file(prop, rp, quiet=True)
        if ok:
            print(f'KNOWN-FINDING: property={prop.ID} {f["what_fails"]}', flush=True)
            ctx.known_seen[f['signature']] = ctx.known_seen.get(f['signature'], 0)
        else:
            stale.append(f)
            print(f'note: known finding no longer reproduces from its replay: {f["signature"]} (got {sigs})', flush=True)
    printed_known = set(ctx.known_seen)
    prop.plan(ctx)
    # classify
    new = {}
    for case, res, v, sig in ctx.violations:
        ksig = sig if sig in known_sigs else next((ks for pat, ks in known_pats if pat.fullmatch(sig)), None)
        if ksig is not None:
            ctx.known_seen[ksig] = ctx.known_seen.get(ksig, 0) + 1
            continue
        new.setdefault(sig, []).append((case, res, v))
    for ks in ctx.known_seen:
        if ks not in printed_known:
            # the committed replay is stale (simulator changed) but exploration still meets the listed finding
            print(f'KNOWN-FINDING: property={prop.ID} {known_sigs[ks]["what_fails"]}', flush=True)
    if a.refresh_findings:
        import shutil
        for f in stale:
            pat = re.compile(f.get('signature_pattern') or re.escape(f['signature']))
            cands = [(c, r, v, sg) for c, r, v, sg in ctx.violations if pat.fullmatch(sg)]
            if not cands:
                print(f'refresh: no exploration hit for {f["signature"]}')
                continue
            cands.sort(key=lambda x: (len(json.dumps(x[0], default=jdefault)), x[1]['stats']['steps']))
            c, r, v, sg = cands[0]
            mc, mr = minimise(prop, c, r, sg, jobs=a.jobs)
            mv = next((x for x in mr.get('violations', []) if signature(prop.ID, mc, x) == sg), v)
            path = write_replay(prop.ID, mc, mr, sg, mv)
            ok1, _, _ = engine.replay_file(prop, path, quiet=True)
            if ok1:
                dst = os.path.join(engine.VERIF, f['replay'])
                shutil.copy(path, dst)
                # keep the listed signature: the entry is identified by its (pattern of) signature
                with open(dst) as fh:
                    doc = json.load(fh)
                doc['signature'] = sg
                with open(dst, 'w') as fh:
                    json.dump(doc, fh, indent=1, default=jdefault)
                print(f'refresh: re-recorded {f["replay"]} ({sg})')
            else:
                print(f'refresh: new replay does not reproduce for {f["signature"]}')
    reported = []
    for sig, lst in sorted(new.items()):
        lst.sort(key=lambda x: (len(json.dumps(x[0], default=jdefault)), x[1]['stats']['steps']))
        case, res, v = lst[0]
        try:
            if os.environ.get('VERIF_NO_MINIMISE'):
                raise RuntimeError('minimisation disabled')
            mcase, mres = minimise(prop, case, res, sig, jobs=a.jobs)
        except Exception as e:   # noqa
            mcase, mres = dict(case, script=unrle(res.get('decisions') or []), lenient=True), res
        mv = next((x for x in mres.get('violations', []) if signature(prop.ID, mcase, x) == sig), v)
        # the replay must reproduce twice in fresh processes; candidates in order of preference: minimised scenario + schedule
        # script, the original case with its recorded schedule, the original case as generated (seed only: exploration runs are
        # deterministic functions of the case, which the determinism self-test checks)
        seeded = {k: x for k, x in case.items() if k not in ('script', 'lenient')}
        cands = [(mcase, mres, mv), (dict(case, script=unrle(res.get('decisions') or []), lenient=True), res, v), (seeded, dict(res, decisions=None), v)]
        path = None
        for ci, (cc, cr, cv) in enumerate(cands):
            pth = write_replay(prop.ID, cc, cr, sig, cv, tag='' if ci == 0 else f'_alt{ci}')
            if ci == 2:
                # write_replay stores a script taken from the result: the seed-only candidate must not carry one
                with open(pth) as fh:
                    doc = json.load(fh)
                doc['case'] = seeded
                with open(pth, 'w') as fh:
                    json.dump(doc, fh, indent=1, default=jdefault)
            ok1, r1, _ = engine.replay_file(prop, pth, quiet=True)
            ok2, r2, _ = engine.replay_file(prop, pth, quiet=True)
            if ok1 and ok2 and r1.get('digest') == r2.get('digest'):
                path, mv = pth, cv
                break
            print(f'note: replay candidate {ci} of {sig} does not reproduce ({pth})', flush=True)
        if path is None:
            print(f'HARNESS-ERROR nondeterministic-replay property={prop.ID} signature={sig} replay={pth}', flush=True)
            rc = max(rc, 2)
            continue
        print(f'VIOLATION property={prop.ID} replay={path}', flush=True)
        print(f'  signature: {sig}  (seen {len(lst)}x)  detail: {json.dumps(mv, default=jdefault)[:600]}', flush=True)
        reported.append({'signature': sig, 'count': len(lst), 'replay': path})
        rc = max(rc, 1)
    if ctx.harness_errors:
        e = ctx.harness_errors[0]
        hp = None
        if e.get('case') is not None:
            os.makedirs(os.path.join(engine.OUT, 'replays'), exist_ok=True)
            hp = os.path.join(engine.OUT, 'replays', f'{prop.ID}_harness_error.json')
            with open(hp, 'w') as fh:
                json.dump({'property': prop.ID, 'signature': 'harness-error', 'case': e['case'], 'err': e['err']}, fh, indent=1, default=jdefault)
        print(f'HARNESS-ERROR {len(ctx.harness_errors)} run(s) failed in the harness: {json.dumps(e["err"], default=jdefault)[:1500]} case={hp}', flush=True)
        rc = max(rc, 2)
    wall = time.time() - t0
    if not a.no_evidence:
        write_evidence(prop, ctx, a, wall, reported)
    print(f'{prop.ID}: runs={ctx.n} distinct_coarse={len(ctx.coarse)} nontrivial_distinct={len(ctx.nontrivial_coarse)} '
          f'outcomes={ctx.outcomes} violations_new={len(reported)} known_seen={ctx.known_seen} wall={wall:.1f}s', flush=True)
    return rc


def write_evidence(prop, ctx, a, wall, reported):
    os.makedirs(EVID, exist_ok=True)
    cov = {
        'evaluations': ctx.n,
        'distinct_nontrivial': len(ctx.nontrivial_coarse),
        'rule': getattr(prop, 'RULE', '') + ' Distinct = distinct coarse traces (sha1 over the sequence of (thread role, '
                'system-call / fault / life-cycle event, object)); non-trivial = at least one fault fired or at least one '
                'pre-emptive context switch happened at a line boundary.',
        'samples': ctx.samples,
        'exhaustive': bool(ctx.exhaustive_info and ctx.exhaustive_info.get('complete')),
        'exhaustive_subspace': ctx.exhaustive_info,
        'distinct_coarse_traces': len(ctx.coarse),
        'runs_per_hour': int(ctx.n / max(wall, 1e-6) * 3600),
        'sim_seconds_total': round(ctx.sim_s, 3),
        'steps_total': ctx.steps,
        'fault_counts': ctx.faults,
        'probes': ctx.probes,
        'landing_sites_distinct': len(ctx.landing_sites),
        'landing_sites': sorted(ctx.landing_sites)[:400],
        'landings_without_real_evalbreak': ctx.landings_unreachable,
        'clock_modes': ctx.clocks,
        'policies': ctx.policies,
        'outcomes': ctx.outcomes,
        'step_cap_hits': ctx.inconclusive,
        'harness_errors': len(ctx.harness_errors),
        'known_findings_seen': ctx.known_seen,
        'new_violation_signatures': reported,
        'phases': ctx.phases,
        'seeds': {'verif_seed': a.seed, 'derivation': 'run seed = sha1(VERIF_SEED, property, phase, index)'},
        'components_real': ['pyworkers/*.py (unmodified, all modules; every line a pre-emption point)',
                            'multiprocessing.connection.Connection: the stdlib Python code (framing: _send_bytes / _recv_bytes / _send / _recv, poll, close), instrumented like pyworkers; only its two-line send() / recv() wrappers are re-written to pickle to / from bytes (CPython 3.12 crashes in the collector on exported BytesIO buffers in garbage)',
                            'ForkingPickler / pickle / copy / struct', _queue_model()],
        'components_stub': ['OS: scheduler, processes, signals, unix socket pairs, TCP, clock (simos; validated by the conformance suite)',
                            'PyThreadState_SetAsyncExc (pending exception raised at modelled CPython 3.12 eval-breaker points)',
                            'threading.Thread / Event / Lock, ctypes, os, signal, socket, time: simos facades (thread identifiers recycled like pthread_t, native ids unique)', 'multiprocessing.Process (spawn): simulated process; pid / is_alive() published when start() is done, like Popen',
                            'spawn bootstrap (__main__ re-import not executed)', 'logging disabled'],
    }
    cov.update(ctx.extra)
    doc = {'property_id': prop.ID, 'tier': a.tier if a.tier in ('quick', 'thorough') else 'quick', 'seed': a.seed,
           'level': prop.LEVEL, 'coverage': cov, 'wall_s': round(wall, 2), 'violations': len(reported),
           'assumptions': getattr(prop, 'ASSUMPTIONS', []) + [
               'simos reproduces Linux/CPython semantics for the calls pyworkers makes (conformance suite)',
               'seeded sampling of schedules: a clean batch is evidence, not proof']}
    with open(os.path.join(EVID, f'{prop.ID}.json'), 'w') as f:
        json.dump(doc, f, indent=1, default=jdefault)


if __name__ == '__main__':
    sys.exit(main())
