"""Regression self-test over the repairs: every `fix:` commit of /repo is reverted on a scratch worktree of HEAD (reverse patch of
that commit alone, when it still applies) and the checks of the properties it repaired are run against that tree.  A repair
counts as guarded when at least one of those checks reports a violation signature that it does not report on HEAD.

usage: ./selftest regress [commit-prefix ...]        (writes findings/REGRESSION.json)"""
import collections
import json
import os
import re
import subprocess
import tempfile

from . import engine

V = engine.VERIF
# repairs whose defect needs the checks of other properties as well
EXTRA = {'2d891c6': ['C03', 'C01', 'C06'], '7964d8c': ['C07', 'C08'], '116982f': ['C01', 'C03'], '9b81c09': ['C01', 'C03'],
         '274e34d': ['C01', 'C06'], '304fd4d': ['C06', 'C01'], 'd6436bf': ['C01', 'C06'], '3c4837c': ['C20', 'C18'],
         'bf7e0eb': ['C12', 'C20'], 'daef78d': ['C12'], '3f9d21b': ['C06', 'C12'], '6a498ac': ['C12', 'C20'], 'afeeb69': ['C03', 'C04']}


# reverting these alone is harmless on HEAD because a later repair removed the situation in which the defect showed
NEUTRALISED = {'a54b3b1': 'since f7b71f6 the context helper runs its (idempotent) clean-up once more when a termination request interrupts it, which also covers a child skipped by the loop; in the server the second stop request is a signal whose handler does not raise',
               'daef78d': 'the unclosed control socket only mattered while the server process could not exit (start-up orphan), repaired in bf7e0eb'}


def run(cmd, **kw):
    return subprocess.run(cmd, stdout=subprocess.PIPE, stderr=subprocess.STDOUT, text=True, **kw)


def sigs_of(out):
    return set(re.findall(r'^  signature: (\S+)', out, flags=re.M))


def main(argv):
    repo = '/repo'
    kf = json.load(open(os.path.join(V, 'findings', 'known_findings.json')))
    props = collections.defaultdict(set)
    for e in kf:
        if e.get('status') == 'fixed':
            props[e['commit'][:7]].add(e['property'])
    log = run(['git', '-C', repo, 'log', '--format=%h %s']).stdout.strip().split('\n')
    fixes = [(l.split()[0][:7], l.split(' ', 1)[1]) for l in log if ' fix:' in l]
    if argv:
        fixes = [f for f in fixes if any(f[0].startswith(a) for a in argv)]
    results = {}
    bad = 0
    for h, subject in fixes:
        checks = sorted(set(EXTRA.get(h, [])) | props.get(h, set()))
        if not checks:
            results[h] = {'status': 'no-property-recorded', 'subject': subject}
            continue
        patch = subprocess.run(['git', '-C', repo, 'diff', h, h + '~1', '--', 'pyworkers'], stdout=subprocess.PIPE).stdout   # bytes: CRLF files
        d = tempfile.mkdtemp(prefix='regr_', dir='/tmp')
        os.rmdir(d)
        run(['git', '-C', repo, 'worktree', 'add', '-q', '--detach', d, 'HEAD'])
        try:
            pf = os.path.join(d, '.revert.diff')
            with open(pf, 'wb') as f:
                f.write(patch)
            r = run(['git', '-C', d, 'apply', '--3way', pf])
            if r.returncode != 0:
                r = run(['git', '-C', d, 'apply', pf])
            conflict = run(['git', '-C', d, 'diff', '--name-only', '--diff-filter=U']).stdout.strip()
            if r.returncode != 0 or conflict:
                results[h] = {'status': 'revert-does-not-apply', 'subject': subject, 'detail': (r.stdout or '')[-200:]}
                print(f'{h}: revert does not apply any more (later repairs touch the same lines) - {subject[:70]}', flush=True)
                continue
            caught = {}
            for cid in checks:
                env = dict(os.environ, VERIF_REPO=d)
                o = run([os.path.join(V, 'check'), cid, '--tier', 'quick', '--no-evidence'], env=env, cwd=V).stdout
                s = sigs_of(o)
                if s:
                    caught[cid] = sorted(s)[:3]
            ok = bool(caught)
            if not ok and h not in NEUTRALISED:
                bad += 1
            st = 'flagged' if ok else ('neutralised-by-later-fix' if h in NEUTRALISED else 'NOT-FLAGGED')
            results[h] = {'status': st, 'subject': subject, 'checks': checks, 'signatures': caught, 'note': NEUTRALISED.get(h)}
            print(f'{h}: {"flagged" if ok else "NOT FLAGGED"} ' + ' '.join(f'{k}:{len(v)}' for k, v in caught.items()) + f' - {subject[:60]}', flush=True)
        finally:
            run(['git', '-C', repo, 'worktree', 'remove', '--force', d])
    rp = os.path.join(V, 'findings', 'REGRESSION.json')
    allres = {}
    if argv and os.path.exists(rp):
        try:
            allres = json.load(open(rp)).get('results') or {}
        except Exception:
            allres = {}
    allres.update(results)
    with open(rp, 'w') as f:
        json.dump({'repo_head': run(['git', '-C', repo, 'rev-parse', 'HEAD']).stdout.strip(), 'results': allres}, f, indent=1, sort_keys=True)
    n = collections.Counter(v['status'] for v in results.values())
    print(f'regress: {dict(n)}')
    return 0 if bad == 0 else 1
