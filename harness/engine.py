"""Run driver: fork-per-run execution of cases, batches on N zygotes, replay files, evidence, known findings."""
import os
import sys
import json
import time
import select
import hashlib
import random
import signal
import traceback
import subprocess

VERIF = os.path.dirname(os.path.dirname(os.path.abspath(__file__)))
WORKLOADS = os.path.join(VERIF, 'workloads')
PROPS = os.path.join(VERIF, 'props')
OUT = os.path.join(VERIF, 'out')
FINDINGS = os.path.join(VERIF, 'findings', 'known_findings.json')

DEFAULT_KNOBS = {'pipe_cap': 65536, 'tcp_cap': 212992, 'latency': 0.0, 'segmentation': 0.0, 'clock': 'responsive',
                 'step_cost': 1e-5, 'max_steps': 300000, 'max_time': 36000.0}


def h64(*parts):
    m = hashlib.sha1(repr(parts).encode()).digest()
    return int.from_bytes(m[:6], 'big')


def jdefault(o):
    if isinstance(o, (set, frozenset)):
        return sorted(o, key=repr)
    if isinstance(o, bytes):
        return f'<bytes {len(o)}>'
    return repr(o)


# ----------------------------------------------------------------------------------------- single execution
def execute_case(prop, case, want_trace=False):
    """Runs in a freshly forked process. Returns a JSON-able result dict."""
    import gc
    from simos import core, shims
    gc.disable()
    want_trace = want_trace or bool(case.get('want_decisions'))
    knobs = dict(DEFAULT_KNOBS)
    knobs.update(case.get('knobs') or {})
    pol = case.get('policy') or {'kind': 'random', 'p_stay': 0.5}
    sim = core.Sim(case.get('sched_seed', 0), knobs=knobs, policy=core.Policy(**pol),
                   script=case.get('script'), lenient=case.get('lenient', True))
    shims.install(sim, extra_code_prefixes=[os.path.join(WORKLOADS, 'targets.py')])
    t0 = time.time()
    res = {'violations': [], 'outcome': None}
    try:
        run = prop.make_run(sim, case)
        outcome = sim.run(run.root, wall_timeout=case.get('wall_timeout', 60.0))
        if outcome != 'harness-error' and not sim.root_proc.alive:
            # the library killed the calling process (known C04 finding: RemoteWorker.terminate(force=True) SIGTERMs
            # os.getpid() when its frontend thread is slow): only C04 judges this; elsewhere the run is inconclusive
            outcome = 'caller-killed'
            k = getattr(sim.root_proc, 'last_signal_from', None) or {}
            sim.probe('caller-killed-by:' + ('itself' if k.get('same_proc') else str(k.get('tag') or k.get('proc') or 'unknown')))
        res['outcome'] = outcome
        if outcome == 'harness-error':
            res['harness_error'] = sim.outcome_info
        else:
            viols = list(run.judge(outcome) or [])
            res['violations'] = viols
            # a workload thread of the harness itself must never die of an exception: that would silently drop checks
            hd = [d for d in sim.died if str(d[3]).startswith('Run.') and (d[2] is None or str(d[2]) == 'None')]
            if hd:
                res['outcome'] = 'harness-error'
                res['harness_error'] = {'why': 'workload thread died', 'died': [list(map(str, d)) for d in hd]}
            res['obs'] = getattr(run, 'obs_summary', lambda: None)()
            if getattr(run, 'evals', None):
                res['evals'] = run.evals
    except BaseException as e:   # noqa
        res['outcome'] = 'harness-error'
        res['harness_error'] = {'why': 'exception in harness', 'tb': traceback.format_exc()[-3000:]}
    res['digest'] = sim.digest()
    res['stats'] = {'steps': sim.steps, 'nsys': sim.nsys, 'switches': sim.switches, 'preempts': sim.preempts,
                    'sim_s': round(sim.now, 6), 'threads': len(sim.threads), 'procs': len(sim.procs),
                    'faults': sim.fault_counts, 'probes': sim.probes,
                    'landing_sites': sorted({tuple(l['at']) for l in sim.landings}),
                    'landings_unreachable': sum(1 for l in sim.landings if not l['evalbreak']),
                    'wall_ms': round((time.time() - t0) * 1000, 2)}
    res['coarse'] = coarse_hash(sim)
    res['nontrivial'] = bool(sim.fault_counts) or sim.preempts > 0 or bool(case.get('faults'))
    if res['violations'] or want_trace or res['outcome'] in ('harness-error',):
        res['decisions'] = rle(sim.decisions)
        res['trace_tail'] = [list(map(str, r)) for r in sim.log[-(int(os.environ.get('VERIF_TRACE_TAIL', '2000')) if want_trace else 120):]]
        res['died'] = [list(map(str, d)) for d in sim.died]
        res['landings'] = sim.landings[-5:]
        if outcome_is_stuck(res['outcome']):
            res['blocked'] = (sim.outcome_info or {}).get('blocked')
    if want_trace:
        res['truth'] = sim.truth[-400:]
    return res


def outcome_is_stuck(o):
    return o in ('hang', 'time-cap', 'spin')


def coarse_hash(sim):
    roles = {t.name: t.role for t in sim.threads}
    h = hashlib.sha1()
    for r in sim.log:
        k = r[0]
        if k in ('read', 'write'):
            h.update(f'{k}:{roles.get(r[1])}:{r[2]};'.encode())
        elif k in ('start', 'done'):
            h.update(f'{k}:{roles.get(r[1])};'.encode())
        else:
            h.update((k + ':' + ':'.join(str(roles.get(x, x)) if isinstance(x, str) else '' for x in r[1:3]) + ';').encode())
    return h.hexdigest()[:16]


def rle(names):
    out = []
    for n in names:
        if out and out[-1][0] == n:
            out[-1][1] += 1
        else:
            out.append([n, 1])
    return out


def unrle(r):
    out = []
    for n, k in r:
        out.extend([n] * k)
    return out


# ----------------------------------------------------------------------------------------- batches
def _child_run(prop, case, wfd, want_trace):
    try:
        res = execute_case(prop, case, want_trace)
        data = json.dumps(res, default=jdefault).encode()
    except BaseException:   # noqa
        data = json.dumps({'outcome': 'harness-error', 'violations': [],
                           'harness_error': {'why': 'crash', 'tb': traceback.format_exc()[-2000:]}}).encode()
    try:
        os.write(wfd, data)
    finally:
        os._exit(0)


def run_one_forked(prop, case, wall=90.0, want_trace=False):
    r, w = os.pipe()
    pid = os.fork()
    if pid == 0:
        os.close(r)
        with os.fdopen(w, 'wb', closefd=True) as f:
            try:
                res = execute_case(prop, case, want_trace)
                data = json.dumps(res, default=jdefault).encode()
            except BaseException:   # noqa
                data = json.dumps({'outcome': 'harness-error', 'violations': [],
                                   'harness_error': {'why': 'crash', 'tb': traceback.format_exc()[-2000:]}}).encode()
            f.write(data)
            f.flush()
        os._exit(0)
    os.close(w)
    chunks = []
    deadline = time.monotonic() + wall
    timed_out = False
    while True:
        rem = deadline - time.monotonic()
        if rem <= 0:
            timed_out = True
            break
        rl, _, _ = select.select([r], [], [], min(rem, 1.0))
        if rl:
            b = os.read(r, 1 << 20)
            if not b:
                break
            chunks.append(b)
    os.close(r)
    if timed_out:
        try:
            os.kill(pid, signal.SIGKILL)
        except ProcessLookupError:
            pass
    os.waitpid(pid, 0)
    if timed_out:
        return {'outcome': 'harness-error', 'violations': [], 'harness_error': {'why': 'wall-timeout'}}
    try:
        return json.loads(b''.join(chunks))
    except Exception:
        return {'outcome': 'harness-error', 'violations': [], 'harness_error': {'why': 'no result from run process'}}


def run_batch(prop, cases, nproc=None, wall=90.0, progress=None):
    """Execute cases (list of dicts) on nproc zygotes, one fork per case. Returns results in order."""
    nproc = nproc or int(os.environ.get('VERIF_JOBS', '16'))
    n = len(cases)
    if n == 0:
        return []
    nproc = max(1, min(nproc, n))
    results = [None] * n
    zy = []
    for z in range(nproc):
        r, w = os.pipe()
        pid = os.fork()
        if pid == 0:
            os.close(r)
            for zr, _ in zy:
                os.close(zr)
            try:
                with os.fdopen(w, 'wb') as f:
                    for i in range(z, n, nproc):
                        res = run_one_forked(prop, cases[i], wall=wall)
                        for _retry in range(2):
                            why = (res.get('harness_error') or {}).get('why') if res.get('outcome') == 'harness-error' else None
                            if why in ('wall-timeout', 'no result from run process', 'real-blocking-call or wall timeout'):
                                res = run_one_forked(prop, cases[i], wall=wall)   # environmental (load / fork failure): retry
                            else:
                                break
                        line = json.dumps([i, res], default=jdefault).encode() + b'\n'
                        f.write(line)
                        f.flush()
            finally:
                os._exit(0)
        os.close(w)
        zy.append((r, pid))
    bufs = {r: b'' for r, _ in zy}
    open_fds = [r for r, _ in zy]
    done = 0
    while open_fds:
        rl, _, _ = select.select(open_fds, [], [], 5.0)
        for r in rl:
            b = os.read(r, 1 << 20)
            if not b:
                open_fds.remove(r)
                os.close(r)
                continue
            bufs[r] += b
            while b'\n' in bufs[r]:
                line, bufs[r] = bufs[r].split(b'\n', 1)
                i, res = json.loads(line)
                results[i] = res
                done += 1
                if progress:
                    progress(done, n)
    for _, pid in zy:
        os.waitpid(pid, 0)
    for i in range(n):
        if results[i] is None:
            results[i] = {'outcome': 'harness-error', 'violations': [], 'harness_error': {'why': 'zygote died'}}
    return results


# ----------------------------------------------------------------------------------------- signatures, findings
def signature(prop_id, case, v):
    return '|'.join([prop_id, v.get('clause', '?'), str(v.get('kind', case.get('kind', '-'))), v.get('manifestation', '?')])


def load_findings():
    try:
        with open(FINDINGS) as f:
            return json.load(f)
    except FileNotFoundError:
        return []


def repo_tree_hash():
    import glob
    h = hashlib.sha1()
    repo = os.environ.get('VERIF_REPO', '/repo')
    for p in sorted(glob.glob(os.path.join(repo, 'pyworkers', '**', '*.py'), recursive=True)):
        h.update(p.encode())
        with open(p, 'rb') as f:
            h.update(f.read())
    return h.hexdigest()


def write_replay(prop_id, case, res, sig, v, tag=''):
    os.makedirs(os.path.join(OUT, 'replays'), exist_ok=True)
    name = f'{prop_id}_{hashlib.sha1((sig + json.dumps(case, sort_keys=True, default=jdefault)).encode()).hexdigest()[:10]}{tag}.json'
    path = os.path.join(OUT, 'replays', name)
    c = dict(case)
    c['script'] = unrle(res.get('decisions') or [])
    c['lenient'] = True
    doc = {'property': prop_id, 'clause': v.get('clause'), 'signature': sig, 'violation': v,
           'verif_seed': case.get('verif_seed'), 'case': c, 'digest': res.get('digest'),
           'schedule_rle': res.get('decisions'), 'repo_tree': repo_tree_hash(),
           'trace_tail': res.get('trace_tail'), 'blocked': res.get('blocked'), 'died': res.get('died'),
           'landings': res.get('landings')}
    with open(path, 'w') as f:
        json.dump(doc, f, indent=1, default=jdefault)
    return path


def replay_file(prop, path, quiet=False):
    with open(path) as f:
        doc = json.load(f)
    case = doc['case']
    res = run_one_forked(prop, case, want_trace=True)
    sigs = [signature(prop.ID, case, v) for v in res.get('violations', [])]
    ok = doc['signature'] in sigs
    if not quiet:
        print(f'replay {path}: outcome={res.get("outcome")} signatures={sigs} digest={res.get("digest")} '
              f'(recorded {doc.get("digest")}) reproduced={ok}')
    return ok, res, sigs
